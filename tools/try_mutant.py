#!/usr/bin/env python3
"""Evaluate one seeded defect against the checks.

  tools/try_mutant.py <worktree-with-change-applied> <PROPERTY>[,<PROPERTY>...] [quick|thorough] [seed]

Runs (1) the repository's own tests in the worktree (must pass), (2) the demonstration
(_mutant/run_demo.sh, must fail), (3) the named checks with VERIF_REPO pointing at the worktree
(expected: exit 1 with a VIOLATION line).  Evidence of these runs goes to a scratch directory.
"""
import sys, os, subprocess, json, time
wt = sys.argv[1]
props = sys.argv[2].split(',')
tier = sys.argv[3] if len(sys.argv) > 3 else 'quick'
seed = sys.argv[4] if len(sys.argv) > 4 else '1'
V = os.path.dirname(os.path.dirname(os.path.abspath(__file__)))
res = {'worktree': wt, 'tier': tier, 'seed': seed}
r = subprocess.run([os.path.join(V, 'tools', 'repo_test.sh'), wt], stdout=subprocess.PIPE, stderr=subprocess.STDOUT, text=True)
res['repo_tests_pass'] = r.returncode == 0
demo = os.path.join(wt, '_mutant', 'run_demo.sh')
if os.path.exists(demo):
    try:
        d = subprocess.run(['bash', demo], stdout=subprocess.PIPE, stderr=subprocess.STDOUT, text=True, timeout=600, cwd=os.path.join(wt, '_mutant'))
        res['demo_exit'] = d.returncode
    except subprocess.TimeoutExpired:
        res['demo_exit'] = 'timeout'
env = dict(os.environ, VERIF_REPO=wt)
res['checks'] = {}
for p in props:
    t0 = time.time()
    c = subprocess.run([os.path.join(V, 'check.py'), p, '--tier', tier, '--seed', seed], stdout=subprocess.PIPE, stderr=subprocess.STDOUT, text=True, env=env)
    keys = [l.strip()[5:] for l in c.stdout.splitlines() if l.strip().startswith('key:')]
    res['checks'][p] = {'exit': c.returncode, 'violation_keys': keys[:12], 'seconds': round(time.time() - t0, 1), 'summary': [l for l in c.stdout.splitlines() if l.startswith(p + ' ')][-1:]}
print(json.dumps(res, indent=1))
