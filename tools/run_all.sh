#!/bin/bash
# usage: tools/run_all.sh [tier] [seed]   -- runs every registered check, prints one summary line each
tier=${1:-quick}; seed=${2:-1}
cd /verif
for p in $(python3 -c "import json;print(' '.join(c['property_id'] for c in json.load(open('MANIFEST.json'))['checks']))"); do
  out=$(./check.py $p --tier $tier --seed $seed 2>&1); rc=$?
  echo "rc=$rc $(echo "$out" | grep "^$p " | tail -1)"
  echo "$out" | grep "^VIOLATION\|^HARNESS\|key:" | head -8
done
