#!/usr/bin/env python3
import json, glob, sys, jsonschema
schema = json.load(open('/root/.vp/EVIDENCE.schema.json'))
bad = 0
for f in sorted(glob.glob('/verif/evidence/C*.json')):
    try:
        jsonschema.validate(json.load(open(f)), schema)
        print('ok  ', f)
    except Exception as e:
        bad += 1
        print('FAIL', f, str(e)[:300])
sys.exit(1 if bad else 0)
