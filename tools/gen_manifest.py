#!/usr/bin/env python3
"""Regenerates /verif/MANIFEST.json from the check registry in check.py."""
import json, os, sys
sys.path.insert(0, os.path.join(os.path.dirname(os.path.abspath(__file__)), '..'))
import check

HOOK_COMMITS = []
hc = os.path.join(check.VERIF, 'hook_commits.txt')
if os.path.exists(hc):
    HOOK_COMMITS = [l.split()[0] for l in open(hc) if l.strip() and not l.startswith('#')]

TEXT = {
    'C01': ('exploration', 'generated writer programs x exact-size read windows; oracle = bit-exact submission model',
            'Held on the generated programs explored: every type x definition class x first-id class x length class (incl. the lengths where the tail must be indexed at close) x partition class; length and >= 60 windows per signal compared bit-for-bit, windows re-read in shuffled order across signals. Says nothing about programs not generated.'),
    'C02': ('exploration', 'statistics requests vs. long-double statistics of the submitted samples (derived tolerances)',
            'Held on the sampled (start, increment, count) requests, including increments that select summary levels 1-3 (quick) / 1-5 (thorough) and starts/ends unaligned to entries, blocks and summary chunks; tolerances are derived from the storage precision, not fitted.'),
    'C03': ('fault_enumeration', 'every crash image of the recorded backend write sequence, reopened by the real reader in its own process',
            'Every cut between two backend writes and byte prefixes inside writes of the generated programs is materialised and opened; what the reader exposes is compared with the submission model (prefix semantics) and clause 2 is checked where it applies. Complete over the crash points of the programs run, exploration over programs.'),
    'C04': ('fault_enumeration', 'exhaustive single-bit flips and sampled multi-bit / burst / overwrite / interrupted-link-update faults on closed files; oracle = truth or correct prefix or error',
            'Every single-bit flip of small files is enumerated (exhaustive for those files); 2-3 bit combinations, bursts <= 32 bits and overwritten ranges are sampled per protected region. Any reader result that is neither an error, the truth, nor a correct prefix is a violation.'),
    'C05': ('exploration', 'independent decoder written from format.h (no jls code) over every produced file + content comparison with the submission model',
            'Every file produced by every generator mode, by jls_copy and by post-crash repair is walked forward/backward and list by list by a decoder that shares no code with the library; content is compared with what was submitted.'),
    'C06': ('exploration', 'controlled scheduler (virtual time) at every lock/wait/sleep point + lockset monitor + content equivalence with the synchronous writer; ThreadSanitizer on real threads',
            'Thousands of distinct, replayable schedules of the real threaded writer with a queue small enough to wrap, fill and reject; the produced file must equal the synchronous writer fed the accepted calls in order; queue and writer state are checked by an Eraser-style lockset monitor; real-thread runs under TSan for instruction-level races.'),
    'C07': ('exploration', 'controlled scheduler with virtual time: flush/close oracles on the I/O log at the instant of return, exact deadlock detection, step budgets',
            'Flush and close are placed at every position of generated programs under all scheduling policies including consumer starvation (time-out paths reached through virtual time); a flush that returns 0 must find its marker on disk followed by an fsync; an empty enabled set with unfinished threads is reported as a deadlock with its wait-for state.'),
    'C08': ('exploration', 'breadth-first enumeration of all operation sequences on small capacities (real code, memoised) + long random sequences; oracle = reference deque from returned pointers',
            'Complete reachable state space for the listed small capacities (all sizes 0..capacity, alloc/peek/pop); random sequences for capacities up to 64 KiB with sizes biased to the edges.'),
    'C09': ('exploration', 'generated gap/overlap write sequences vs. fill / keep-first model; stored summaries recomputed by the independent decoder',
            'Held on the generated sequences of 1-6 gap/overlap events over all types, including gaps larger than the internal fill buffer and sub-byte-unaligned overlaps.'),
    'C10': ('exploration', 'API op-sequence interpreter under AddressSanitizer + UBSan subset + LeakSanitizer, exactly sized caller buffers, one process per sequence',
            'Generated call sequences over the whole public API with boundary ids, windows, lengths, enum values and definition parameters; any signal, sanitizer report, CPU-limit hit or leak is a violation keyed by report kind and first library frame; on CRC-consistent hostile files (what the raw API can write) sanitizer reports and signals decide, CPU-limit hits are inconclusive.'),
    'C11': ('exploration', 'generated annotation programs vs. submission model: full iteration, seeks at every timestamp class, early stop',
            'Held on the generated files: decimation factors, counts up to three index levels, equal-timestamp runs placed across index-chunk boundaries, global and FSR signals with offsets.'),
    'C12': ('exploration', 'generated UTC anchor sets vs. exact rational interpolation (int128)',
            'Held on the generated anchor sets incl. 999/1000/1001 anchors, rates 1 Hz - 1 GHz, drift, irregular spacing; conversions within 1 tick + 2^-50 relative, anchors exact, monotone, inverse within one sample where well posed.'),
    'C13': ('exploration', 'generated definition/user-data programs incl. calls that must be rejected; I/O log proves rejected calls write nothing; byte-identical file without them',
            'Held on the generated id sets, string classes (absent .. 600 KiB) and user-data sizes (0 .. 3 MiB).'),
    'C14': ('exploration', 'online write-once monitor inside the interposed write(): every backend write judged against the previous bytes',
            'Every backend write of every writer run of the generator modes is judged: appends, header link patches (bytes 16..27 unchanged, CRC valid), head-table entries 0 -> existing chunk, file header only as the last write. The far mode repeats this with file positions beyond 2^32 and reads the result back through the library reader.'),
    'C15': ('exploration', 'same stream written with omission on/off: SUMMARY payloads bit-identical (independent decoder), lengths, reads',
            'Held on the generated streams (constant/non-constant block patterns, omission toggled at random calls).'),
    'C16': ('exploration', 'complete small grid + boundary-biased sampling of the normaliser in CPU-limited children; define-read-define round trip through files',
            'Complete over the 20^4 x 15 grid; sampled over the 32-bit domain. The symbolic query of the property quantifier is outside this technique family.'),
    'C17': ('exploration', 'reader dump of source vs. copy (closed files) and prefix comparison (unclosed crash images); copy decoded as a closed file',
            'Held on the generated closed files and on crash images cut between writes, apart from the listed known findings.'),
    'C18': ('exploration', 'exhaustive over lengths 0..4096 x alignments 0..7 (7 contents each) for hardware and table paths vs. bit-serial reference; all 8x256 table entries',
            'Exhaustive over length x alignment for lengths <= 4096 (contents sampled); tables complete; large buffers and headers sampled.'),
    'C19': ('fault_enumeration', 'closed files: full read mix under the I/O log (0 writes, read-only open, identical bytes); every crash image that opens: reopened twice, decoder on the repaired file',
            'Every crash image of the programs run that opens successfully is reopened twice: no further write, identical bytes, identical dumps; the repaired file is decoded as a closed file.'),
    'C20': ('exploration', 'generated sequences: compute/add/combine groupings vs. long-double two-pass reference with analytic error bounds',
            'Held on the generated sequences, all split points for n <= 64, random groupings and in-place chains.'),
}

NOTE = {
    'exploration': 'Trusted base: the submission model and generators in /verif/harness (seeded, deterministic), gcc sanitizer runtimes where used. Nothing is proved; inputs, schedules and crash points not produced are not covered.',
    'fault_enumeration': 'Trusted base: the interposed I/O log (write()/lseek()/ftruncate() of backend_posix.o) and the submission model. Crash model: a prefix of the backend write sequence reaches the disk in order. Complete only over the programs/files actually run.',
}


def main():
    props = [json.loads(l) for l in open(os.path.join(check.VERIF, 'properties.jsonl'))]
    checks = []
    na = []
    reasons = {}
    rp = os.path.join(check.VERIF, 'not_applicable.json')
    if os.path.exists(rp):
        reasons = json.load(open(rp))
    for p in props:
        pid = p['id']
        if pid in check.CHECKS and check.CHECKS[pid]:
            lvl, tech, text = TEXT[pid]
            checks.append({
                'property_id': pid,
                'quick_cmd': './check.py %s --tier quick' % pid,
                'thorough_cmd': './check.py %s --tier thorough' % pid,
                'evidence_file': 'evidence/%s.json' % pid,
                'replay_cmd_template': './check.py %s --replay {path}' % pid,
                'engine': ','.join(sorted(set(r['harness'] for r in check.CHECKS[pid]))),
                'level_claimed': {'category': check.LEVELS[pid], 'text': text, 'design_ref': 'DESIGN.md section 4 (%s)' % pid},
                'level_note': NOTE[check.LEVELS[pid]],
                'technique': tech,
            })
        else:
            na.append({'property_id': pid, 'reason': reasons.get(pid, 'check not built yet (work in progress; see DESIGN.md)')})
    engines = []
    seen = {}
    for pid, runs in check.CHECKS.items():
        for r in runs:
            seen.setdefault(r['harness'], set()).add(pid)
    kinds = {
        'h_file': 'generated writer programs -> sync writer under the write-once monitor -> independent decoder -> public reader vs. submission model',
        'h_crash': 'crash-image enumeration from the recorded backend write log; each image reopened in its own process',
        'h_flip': 'bit-flip / burst / overwrite fault injection on closed files; each altered copy opened in its own process',
        'h_twr': 'threaded writer under a controlled scheduler with virtual time (link-time interposition of pthread/clock/nanosleep) and under real threads with ThreadSanitizer',
        'h_mrb': 'exhaustive + random exploration of the message ring buffer against a reference deque',
        'h_api': 'API misuse interpreter under ASan/UBSan/LSan, one process per sequence',
        'h_def': 'signal-definition normaliser grid/sampling in CPU-limited children',
        'h_crc': 'CRC-32C differential test against a bit-serial reference',
        'h_stats': 'statistics accumulator differential test against long-double reference',
    }
    for h, ps in sorted(seen.items()):
        engines.append({'name': h, 'path': 'harness/%s.c' % h, 'serves_properties': sorted(ps), 'kind_free_text': kinds.get(h, '')})
    m = {
        'version': 1,
        'setup_cmd': 'python3 tools/setup.py',
        'hooks': {
            'guard': 'JLS_VERIF',
            'enable': 'check.py compiles /repo/src/*.c itself with -DJLS_VERIF into /verif/build/<variant>-<treehash>/ (plain, asan, tsan variants); all other observation is link-time interposition (-Wl,--wrap=...)',
            'baseline_off_cmd': '/verif/tools/repo_test.sh /repo',
            'source_commits': HOOK_COMMITS,
            'add_only': True,
        },
        'engines': engines,
        'checks': checks,
        'not_applicable': na,
        'notes': 'Every check: exit 0 = held on everything explored (KNOWN-FINDING lines for listed genuine defects), exit 1 + VIOLATION lines = unlisted violation, exit 2 = harness failure or >2% inconclusive cases. VERIF_SEED / --seed select the PRNG stream; VERIF_JOBS the worker count (default 16). Known findings: known_findings.json.',
    }
    with open(os.path.join(check.VERIF, 'MANIFEST.json'), 'w') as f:
        json.dump(m, f, indent=1)
    print('MANIFEST.json: %d checks, %d not applicable' % (len(checks), len(na)))


if __name__ == '__main__':
    main()
