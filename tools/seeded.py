#!/usr/bin/env python3
"""Seeded-defect validation: run the checks against the changes kept under /verif/seeded/<id>/.

  tools/seeded.py [--only ID,ID] [--tier quick|thorough] [--seeds 1,2] [--no-tests] [--no-demo]
  tools/seeded.py --import /tmp/mut-C02 C02 [C02,C10]      (take an agent's result into seeded/)

Each seeded/<id>/ holds
  patch.diff    the change to jetperch/jls (never committed to /repo)
  demo.c, run_demo.sh   the author's demonstration (fails with the change, passes without)
  notes.md      the author's description
  meta.json     {"property": ..., "checks": [...], "needs": what it takes to manifest,
                 "worktree": path the demonstration expects, "results": {...filled by this tool}}

For every entry a scratch worktree of /repo HEAD is created at meta.worktree (outside /repo and
/verif), the patch applied, then: (1) the repository's own suite must pass, (2) the demonstration
must fail with the patch and pass without it, (3) each listed check is run with VERIF_REPO
pointing at the worktree and must exit 1 with a VIOLATION line.  The worktree and its build
output are removed afterwards.  Results go to seeded/<id>/meta.json and seeded/RESULTS.md.
"""
import os, sys, json, subprocess, shutil, time

V = os.path.dirname(os.path.dirname(os.path.abspath(__file__)))
S = os.path.join(V, 'seeded')


def sh(*a, **k):
    return subprocess.run(a, stdout=subprocess.PIPE, stderr=subprocess.STDOUT, text=True, **k)


def fresh_worktree(wt):
    sh('git', '-C', '/repo', 'worktree', 'remove', '--force', wt)
    shutil.rmtree(wt, ignore_errors=True)
    sh('git', '-C', '/repo', 'worktree', 'prune')
    r = sh('git', '-C', '/repo', 'worktree', 'add', '-q', '--detach', wt, 'HEAD')
    if r.returncode:
        raise SystemExit('cannot create worktree %s: %s' % (wt, r.stdout))


def drop_worktree(wt):
    sh('git', '-C', '/repo', 'worktree', 'remove', '--force', wt)
    shutil.rmtree(wt, ignore_errors=True)
    sh('git', '-C', '/repo', 'worktree', 'prune')


def run_demo(wt, d):
    m = os.path.join(wt, '_mutant')
    os.makedirs(m, exist_ok=True)
    for f in os.listdir(d):
        if f not in ('meta.json',):
            shutil.copy(os.path.join(d, f), os.path.join(m, f))
    try:
        r = sh('bash', os.path.join(m, 'run_demo.sh'), cwd=m, timeout=900)
        return r.returncode
    except subprocess.TimeoutExpired:
        return 'timeout'


def do_import(args):
    src, sid = args[0], args[1]
    checks = args[2].split(',') if len(args) > 2 else [sid[:3]]
    d = os.path.join(S, sid)
    os.makedirs(d, exist_ok=True)
    for f in ('patch.diff', 'demo.c', 'run_demo.sh', 'notes.md'):
        shutil.copy(os.path.join(src, '_mutant', f), os.path.join(d, f))
    meta = {'property': sid[:3], 'checks': checks, 'worktree': src, 'author': 'sub-agent given only the property text and a scratch worktree', 'needs': ''}
    mp = os.path.join(d, 'meta.json')
    if os.path.exists(mp):
        old = json.load(open(mp))
        old.update({k: v for k, v in meta.items() if k not in old or not old[k]})
        meta = old
    json.dump(meta, open(mp, 'w'), indent=1)
    print('imported', sid)


def main():
    args = sys.argv[1:]
    if args and args[0] == '--import':
        return do_import(args[1:])
    only = None
    tier = 'quick'
    seeds = ['1']
    if '--only' in args:
        only = set(args[args.index('--only') + 1].split(','))
    if '--tier' in args:
        tier = args[args.index('--tier') + 1]
    if '--seeds' in args:
        seeds = args[args.index('--seeds') + 1].split(',')
    ids = sorted(x for x in os.listdir(S) if os.path.isdir(os.path.join(S, x)))
    for sid in ids:
        if only and sid not in only:
            continue
        d = os.path.join(S, sid)
        meta = json.load(open(os.path.join(d, 'meta.json')))
        wt = meta['worktree']
        assert wt.startswith('/tmp/') and not wt.startswith('/repo') and not wt.startswith('/verif')
        res = {'repo_head': sh('git', '-C', '/repo', 'rev-parse', '--short', 'HEAD').stdout.strip(), 'tier': tier, 'checks': {}}
        try:
            fresh_worktree(wt)
            if '--no-demo' not in args:
                res['demo_exit_without_change'] = run_demo(wt, d)
            a = sh('git', '-C', wt, 'apply', os.path.join(d, 'patch.diff'))
            if a.returncode:
                # context drift after later fix: commits: accept a fuzzy application, and say so
                a = subprocess.run(['patch', '-p1', '-F3', '--no-backup-if-mismatch', '-i', os.path.join(d, 'patch.diff')], cwd=wt, stdout=subprocess.PIPE, stderr=subprocess.STDOUT, text=True)
                res['applied_with_fuzz'] = a.returncode == 0
            if a.returncode:
                res['error'] = 'patch does not apply to /repo HEAD: ' + a.stdout[:300]
                meta['results'] = res
                json.dump(meta, open(os.path.join(d, 'meta.json'), 'w'), indent=1)
                print('%-8s PATCH DOES NOT APPLY' % sid, flush=True)
                continue
            if '--no-tests' not in args:
                t = sh(os.path.join(V, 'tools', 'repo_test.sh'), wt)
                res['repo_tests_pass_with_change'] = t.returncode == 0
            if '--no-demo' not in args:
                res['demo_exit_with_change'] = run_demo(wt, d)
            env = dict(os.environ, VERIF_REPO=wt)
            for p in meta['checks']:
                for seed in seeds:
                    t0 = time.time()
                    c = sh(os.path.join(V, 'check.py'), p, '--tier', tier, '--seed', seed, env=env)
                    keys = [l.strip()[5:] for l in c.stdout.splitlines() if l.strip().startswith('key:')]
                    res['checks']['%s seed=%s' % (p, seed)] = {'exit': c.returncode, 'caught': c.returncode == 1, 'new_violation_keys': keys[:10], 'seconds': round(time.time() - t0, 1)}
        finally:
            drop_worktree(wt)
        caught = [k for k, v in res['checks'].items() if v['caught']]
        res['caught_by'] = caught
        meta['results'] = res
        json.dump(meta, open(os.path.join(d, 'meta.json'), 'w'), indent=1)
        print('%-8s tests=%s demo(without,with)=(%s,%s) %s' % (sid, res.get('repo_tests_pass_with_change'), res.get('demo_exit_without_change'), res.get('demo_exit_with_change'),
              ' '.join('%s:%s' % (k, 'CAUGHT' if v['caught'] else 'missed(exit %s)' % v['exit']) for k, v in res['checks'].items())), flush=True)
    # summary table
    lines = ['# Seeded defects: which checks catch which changes', '', '| id | property | needs | repo tests | demo without/with | checks (tier, seed) |', '|---|---|---|---|---|---|']
    for sid in ids:
        meta = json.load(open(os.path.join(S, sid, 'meta.json')))
        r = meta.get('results') or {}
        cs = '; '.join('%s %s' % (k, 'CAUGHT [%s]' % ', '.join(v['new_violation_keys'][:2]) if v['caught'] else 'missed') for k, v in (r.get('checks') or {}).items())
        lines.append('| %s | %s | %s | %s | %s / %s | %s |' % (sid, meta['property'], (meta.get('needs') or '').replace('|', '/'), 'pass' if r.get('repo_tests_pass_with_change') else r.get('repo_tests_pass_with_change'),
                     r.get('demo_exit_without_change'), r.get('demo_exit_with_change'), cs.replace('|', '\\|')))
    open(os.path.join(S, 'RESULTS.md'), 'w').write('\n'.join(lines) + '\n')


if __name__ == '__main__':
    main()
