#!/bin/bash
# Build /repo with the guard OFF (plain upstream build) and run its unedited test suite serially.
# (jls_test and repair_test share one scratch file name, so they must not run concurrently.)
set -e
R=${1:-/repo}
cmake -G Ninja -S "$R" -B "$R/_build" >/dev/null
cmake --build "$R/_build" >/dev/null
ctest --test-dir "$R/_build" -j1 --timeout 900 2>&1 | tail -4
test "${PIPESTATUS[0]}" -eq 0
