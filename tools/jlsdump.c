/* debugging aid: list the chunks of a JLS file using the independent decoder */
#include "jlsdec.h"
#include <stdio.h>
#include <string.h>
int main(int argc, char **argv) {
    jd_t d;
    if (argc < 2 || jd_load(&d, argv[1])) { fprintf(stderr, "usage: jlsdump file [-q]\n"); return 2; }
    jd_decode(&d);
    int quiet = argc > 2;
    for (size_t i = 0; i < d.n && !quiet; ++i) {
        jd_chunk_t *c = &d.ch[i];
        long long ts = 0; unsigned cnt = 0;
        if (c->plen >= 16 && (c->tag & 0xE0) == 0x20 && (c->tag & 7) >= 2) { memcpy(&ts, c->payload, 8); memcpy(&cnt, c->payload + 8, 4); }
        printf("%8llu tag=%02x meta=%04x plen=%-7u pprev=%-7u next=%-8llu prev=%-8llu ts=%lld cnt=%u\n", (unsigned long long) c->off, c->tag, c->meta, c->plen, c->pprev,
               (unsigned long long) c->next, (unsigned long long) c->prev, ts, cnt);
    }
    for (int s = 0; s < 256; ++s) if (d.sig[s].present) {
        jd_signal_t *g = &d.sig[s];
        printf("signal %d type=%d dt=%08x spd=%u sdf=%u eps=%u sumdf=%u adf=%u udf=%u first=%lld end=%lld data=%zu", s, g->signal_type, g->data_type, g->spd, g->sdf, g->eps, g->sumdf, g->adf, g->udf,
               (long long) g->fsr_first, (long long) g->fsr_end, g->data[0].n);
        for (int l = 1; l < 16; ++l) if (g->index[0][l].n) printf(" L%d:%zu/%zu", l, g->index[0][l].n, g->summary[0][l].n);
        printf(" anno=%zu utc=%zu\n", g->data[2].n, g->data[3].n);
        if (g->signal_type == 0) jd_check_summaries(&d, g);
    }
    printf("closed=%d errors=%d orphans=%zu chunks=%zu\n", d.closed, d.nerr_total, d.orphans, d.n);
    for (int i = 0; i < d.nerr; ++i) printf("  %s: %s\n", d.err[i].rule, d.err[i].msg);
    return d.nerr_total ? 1 : 0;
}
