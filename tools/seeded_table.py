#!/usr/bin/env python3
"""Rewrites the table between <!-- seeded-table-begin --> and <!-- seeded-table-end --> in DESIGN.md
from seeded/*/meta.json (results written by tools/seeded.py)."""
import os, json, re
V = os.path.dirname(os.path.dirname(os.path.abspath(__file__)))
S = os.path.join(V, 'seeded')
def key(s):
    m = re.match(r'C(\d+)(?:-(\d+))?$', s)
    return (int(m.group(1)), int(m.group(2) or 1))
rows = ['| seeded id | change | caught by (check: first keys) |', '|---|---|---|']
n = caught = 0
for sid in sorted((x for x in os.listdir(S) if os.path.isdir(os.path.join(S, x))), key=key):
    m = json.load(open(os.path.join(S, sid, 'meta.json')))
    r = m.get('results') or {}
    change = (m.get('needs') or '').split(':')[0].strip()
    if m.get('obsolete'):
        change += ' (obsolete, see text)'
    by = {}
    for k, v in (r.get('checks') or {}).items():
        p = k.split()[0]
        if v.get('caught'):
            by.setdefault(p, v.get('new_violation_keys', [])[:2])
    n += 1
    if by:
        caught += 1
        cell = '; '.join('%s: %s' % (p, ', '.join('`%s`' % x.replace('|', '\\|') for x in ks)) for p, ks in by.items())
    else:
        cell = 'not caught' if r.get('checks') else (r.get('error') or 'not run')[:60]
    rows.append('| %s | %s | %s |' % (sid, change.replace('|', '\\|'), cell))
p = os.path.join(V, 'DESIGN.md')
s = open(p).read()
a, b = '<!-- seeded-table-begin -->', '<!-- seeded-table-end -->'
assert a in s and b in s
s = s[:s.index(a) + len(a)] + '\n' + '\n'.join(rows) + '\n' + s[s.index(b):]
open(p, 'w').write(s)
print('%d entries, %d caught' % (n, caught))
