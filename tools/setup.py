#!/usr/bin/env python3
"""Offline setup: pre-builds every harness/variant pair the registered checks use (content-addressed
cache under /verif/build; checks rebuild by themselves whenever /repo or the harness sources change)."""
import os, sys
sys.path.insert(0, os.path.join(os.path.dirname(os.path.abspath(__file__)), '..'))
import check

pairs = set()
for runs in check.CHECKS.values():
    for r in runs:
        pairs.add((r['variant'], r['harness'], tuple(r.get('defs', ()))))
ok = True
for variant, harness, defs in sorted(pairs):
    try:
        exe = check.build(variant, harness, defs)
        print('built', variant, harness, '->', exe)
    except check.BuildError as e:
        ok = False
        print('BUILD FAILED', variant, harness, str(e)[:2000])
os.makedirs(check.EVID, exist_ok=True)
sys.exit(0 if ok else 1)
