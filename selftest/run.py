#!/usr/bin/env python3
"""Runs the checks against each self-test mutant (selftest/mutants/*.diff).

  selftest/run.py [--only ID,ID] [--tier quick] [--jobs N] [--with-tests]

For every mutant: a scratch worktree of /repo gets the patch applied (outside /repo and /verif,
removed afterwards), the named property's check runs with VERIF_REPO pointing at it, and the
result (caught = exit 1 with VIOLATION) is written to selftest/results.json.  With --with-tests
the repository's own suite is run on the mutant first (a mutant that the suite catches is not a
useful mutant and is flagged)."""
import os, sys, json, subprocess, time, shutil

V = os.path.dirname(os.path.dirname(os.path.abspath(__file__)))
MUT = os.path.join(V, 'selftest', 'mutants')


def sh(*a, **k):
    return subprocess.run(a, stdout=subprocess.PIPE, stderr=subprocess.STDOUT, text=True, **k)


def main():
    args = sys.argv[1:]
    only = None
    tier = 'quick'
    with_tests = '--with-tests' in args
    if '--only' in args:
        only = set(args[args.index('--only') + 1].split(','))
    if '--tier' in args:
        tier = args[args.index('--tier') + 1]
    index = json.load(open(os.path.join(MUT, 'index.json')))
    results = []
    rp = os.path.join(V, 'selftest', 'results.json')
    prev = {}
    if os.path.exists(rp):
        prev = {r['id']: r for r in json.load(open(rp))}
    for m in index:
        if only and m['id'] not in only:
            if m['id'] in prev:
                results.append(prev[m['id']])
            continue
        wt = '/tmp/jlsverif-selftest-%s' % m['id']
        sh('git', '-C', '/repo', 'worktree', 'remove', '--force', wt)
        sh('git', '-C', '/repo', 'worktree', 'add', '-q', wt, 'HEAD')
        r = {'id': m['id'], 'property': m['property'], 'note': m['note'], 'tier': tier}
        try:
            a = sh('git', '-C', wt, 'apply', os.path.join(MUT, m['id'] + '.diff'))
            if a.returncode:
                r['error'] = 'patch does not apply: ' + a.stdout[:300]
                results.append(r)
                continue
            if with_tests:
                t = sh(os.path.join(V, 'tools', 'repo_test.sh'), wt)
                r['repo_tests_pass'] = t.returncode == 0
            t0 = time.time()
            env = dict(os.environ, VERIF_REPO=wt)
            c = sh(os.path.join(V, 'check.py'), m['property'], '--tier', tier, env=env)
            r['exit'] = c.returncode
            r['caught'] = c.returncode == 1
            r['keys'] = [l.strip()[5:] for l in c.stdout.splitlines() if l.strip().startswith('key:')][:8]
            r['seconds'] = round(time.time() - t0, 1)
            if c.returncode == 2:
                r['harness_failure'] = [l for l in c.stdout.splitlines() if 'HARNESS' in l][:2]
        finally:
            sh('git', '-C', '/repo', 'worktree', 'remove', '--force', wt)
            shutil.rmtree(wt, ignore_errors=True)
        results.append(r)
        r['equivalent'] = m['note'].startswith('EQUIVALENT')
        print('%-5s %-4s %s %s' % (m['id'], m['property'], 'CAUGHT' if r.get('caught') else ('not caught (equivalent mutant, expected)' if r['equivalent'] else 'MISSED(exit %s)' % r.get('exit')), (r.get('keys') or [''])[0][:90]), flush=True)
    json.dump(results, open(rp, 'w'), indent=1)
    n = sum(1 for r in results if r.get('caught'))
    eq = sum(1 for r in results if r.get('equivalent') and not r.get('caught'))
    print('%d of %d mutants caught; %d equivalent mutants not caught (expected); %d missed' % (n, len(results), eq, len(results) - n - eq))


if __name__ == '__main__':
    main()
