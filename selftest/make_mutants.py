#!/usr/bin/env python3
"""Generates selftest/mutants/<id>.diff from edit specs, against the current /repo HEAD.
Each mutant is a small, compiling change that breaks one property (own validation set,
complementing the independently produced changes under /verif/seeded)."""
import os, subprocess, sys, shutil, json

V = os.path.dirname(os.path.dirname(os.path.abspath(__file__)))
OUT = os.path.join(V, 'selftest', 'mutants')
WT = '/tmp/jlsverif-selfmut'

M = [
 # id, property, file, old, new, note
 ('C01a', 'C01', 'src/core.c', "if (self->rd_index_chunk.hdr.chunk_meta != ((1 << 12) | (signal_id & 0x00ff))) {", "if (0) {", 'level-1 read cache ignores the signal id (needs reads interleaved across signals)'),
 ('C01b', 'C01', 'src/core.c', "        for (int k = 3; k <= lvl; ++k) {\n            step_size *= signal_def->summary_decimate_factor;", "        for (int k = 4; k <= lvl; ++k) {\n            step_size *= signal_def->summary_decimate_factor;", 'fsr_seek step size wrong from level 3 up (needs >= 3 summary levels)'),
 ('C02a', 'C02', 'src/reader.c', "    for (uint8_t lvl = 2; lvl <= level; ++lvl) {\n        step_size *= signal_def->summary_decimate_factor;", "    for (uint8_t lvl = 3; lvl <= level; ++lvl) {\n        step_size *= signal_def->summary_decimate_factor;", 'statistics step size one factor short at level >= 2'),
 ('C02b', 'C02', 'src/wr_fsr.c', "            if (count == 1) {\n                v_var = 0.0;\n            } else {\n                v_var /= count;\n            }", "            if (count == 1) {\n                v_var = 0.0;\n            } else {\n                v_var /= (count - 1);\n            }", 'level-1 summaries store the sample instead of the population variance'),
 ('C03a', 'C05', 'src/reader.c', "        GOE(jls_bk_truncate(jls_raw_backend(core->raw)));", "        /* truncate skipped */", 'repair does not truncate the torn tail (the reopened prefix is still right, so C03 holds; the repaired file is malformed: C05/C19)'),
 ('C03b', 'C03', 'src/reader.c', "                    jls_track_repair_pointers(&signal_info->tracks[track_idx]);", "                    (void) track_idx;", 'dangling links are not cut on repair'),
 ('C04a', 'C04', 'src/raw.c', "    if (crc32_calc != crc32_file) {\n        JLS_LOGE(\"crc32 mismatch: 0x%08x != 0x%08x\", crc32_file, crc32_calc);\n        return JLS_ERROR_MESSAGE_INTEGRITY;\n    }", "    if ((crc32_calc != crc32_file) && (hdr->payload_length < 64)) {\n        JLS_LOGE(\"crc32 mismatch: 0x%08x != 0x%08x\", crc32_file, crc32_calc);\n        return JLS_ERROR_MESSAGE_INTEGRITY;\n    }", 'payload CRC only enforced for small payloads'),
 ('C04b', 'C04', 'src/raw.c', "        uint32_t crc32 = jls_crc32c_hdr(h);\n        if ((crc32 != h->crc32) && !hdr_is_torn_link(h)) {\n            JLS_LOGW(\"chunk header fpos", "        uint32_t crc32 = jls_crc32c_hdr(h);\n        if ((crc32 != h->crc32) && ((crc32 ^ h->crc32) & 0xffff0000U) && !hdr_is_torn_link(h)) {\n            JLS_LOGW(\"chunk header fpos", 'header CRC compared on the upper 16 bits only'),
 ('C05a', 'C05', 'src/raw.c', "    if (self->backend.fpos >= self->backend.fend) {\n        self->last_payload_length = payload_length;\n    }", "    if (self->backend.fpos > self->backend.fend) {\n        self->last_payload_length = payload_length;\n    }", 'payload_prev_length never updated on append'),
 ('C05b', 'C05', 'src/wr_fsr.c', "        dst->index->header.timestamp = src->index->header.timestamp;\n        dst->summary->header.timestamp = src->summary->header.timestamp;", "        dst->index->header.timestamp = src->index->header.timestamp;\n        dst->summary->header.timestamp = src->summary->header.timestamp + 1;", 'upper-level SUMMARY timestamp differs from its INDEX'),
 ('C06a', 'C06', 'src/threaded_writer.c', "    uint32_t sz = sizeof(*hdr) + payload_size;\n    jls_bkt_msg_lock(self->bk);\n    uint8_t *msg = jls_mrb_alloc(&self->mrb, sz);", "    uint32_t sz = sizeof(*hdr) + payload_size;\n    uint8_t *msg = jls_mrb_alloc(&self->mrb, sz);\n    jls_bkt_msg_lock(self->bk);", 'queue allocation moved out of the message lock'),
 ('C06b', 'C06', 'src/threaded_writer.c', "            jls_bkt_msg_lock(self->bk);\n            if (NULL != msg) {\n                jls_mrb_pop(&self->mrb, &msg_size);\n            }\n            msg = jls_mrb_peek(&self->mrb, &msg_size);\n            jls_bkt_msg_unlock(self->bk);", "            jls_bkt_msg_lock(self->bk);\n            msg = jls_mrb_pop(&self->mrb, &msg_size);\n            jls_bkt_msg_unlock(self->bk);", 'consumer pops before processing: message memory can be reused while in use'),
 ('C07a', 'C07', 'src/threaded_writer.c', "                    jls_wr_flush(self->wr);\n                    self->flush_processed_id = hdr.d > self->flush_processed_id ? hdr.d : self->flush_processed_id;", "                    self->flush_processed_id = hdr.d > self->flush_processed_id ? hdr.d : self->flush_processed_id;\n                    jls_wr_flush(self->wr);", 'flush acknowledged before the sync'),
 ('C07b', 'C07', 'src/backend_posix.c', "static void eventflag_set(struct event_flag* ev) {\n    pthread_mutex_lock(&ev->mutex);\n    ev->flag = 1;\n    pthread_cond_signal(&ev->condition);\n    pthread_mutex_unlock(&ev->mutex);", "static void eventflag_set(struct event_flag* ev) {\n    pthread_cond_signal(&ev->condition);\n    pthread_mutex_lock(&ev->mutex);\n    ev->flag = 1;\n    pthread_mutex_unlock(&ev->mutex);", 'signal before the flag is set: lost wake-up window'),
 ('C08a', 'C08', 'src/msg_ring_buffer.c', "        } else if ((size + 5) < tail) {", "        } else if ((size + 4) <= tail) {", 'wrap allowed when the new message ends exactly at the tail'),
 ('C08b', 'C08', 'src/msg_ring_buffer.c', "        uint32_t end_idx = head + 4 + size + 4 + (tail ? 0 : 1);\n        if (end_idx < self->buf_size) {", "        uint32_t end_idx = head + 4 + size + (tail ? 0 : 1);\n        if (end_idx < self->buf_size) {", 'no room reserved for the wrap marker'),
 ('C09a', 'C09', 'src/wr_fsr.c', "            for (size_t idx = 0; idx < sizeof(self->buffer_u64) / sizeof(double); ++idx) {\n                f64[idx] = NAN;", "            for (size_t idx = 0; idx < sizeof(self->buffer_u64) / sizeof(double); ++idx) {\n                f64[idx] = 0.0;", 'f64 gaps filled with 0 instead of NaN'),
 ('C09b', 'C09', 'src/wr_fsr.c', "        uint32_t ffwd = (uint32_t) (sample_id_next - sample_id);\n        data_length -= ffwd;", "        uint32_t ffwd = (uint32_t) (sample_id_next - sample_id);\n        data_length -= ffwd;\n        if (ffwd > 1) { --ffwd; ++data_length; }", 'overlap skips one sample too few for overlaps longer than 1'),
 ('C10a', 'C10', 'src/writer.c', "    if (source->source_id >= JLS_SOURCE_COUNT) {\n        return JLS_ERROR_PARAMETER_INVALID;\n    }\n    struct jls_core_chunk_s * chunk = &core->source_info", "    if (source->source_id > JLS_SOURCE_COUNT) {\n        return JLS_ERROR_PARAMETER_INVALID;\n    }\n    struct jls_core_chunk_s * chunk = &core->source_info", 'source id 256 accepted: one past source_info[]'),
 ('C10b', 'C10', 'src/reader.c', "        jls_buf_free(core->rd_summary);", "        /* rd_summary kept */", 'reader leaks its summary buffer on close'),
 ('C11a', 'C11', 'src/wr_ts.c', "            summary_up->entries[summary_up->header.entry_count++] = summary->entries[0];\n        }\n    } else if (self->track_type == JLS_TRACK_TYPE_UTC) {", "            summary_up->entries[summary_up->header.entry_count++] = summary->entries[0];\n        }\n        if (index_up && (level >= 2)) { index_up->entries[index_up->header.entry_count - 1].timestamp = index->entries[index->header.entry_count - 1].timestamp; }\n    } else if (self->track_type == JLS_TRACK_TYPE_UTC) {", 'level >= 3 annotation index carries the last instead of the first timestamp'),
 ('C12a', 'C12', 'src/tmap.c', "    if (low >= (self->entries_length - 1)) {\n        low = self->entries_length - 2;\n    }", "    if (low >= (self->entries_length - 1)) {\n        low = self->entries_length - 3;\n    }", 'extrapolation after the last anchor uses the wrong segment'),
 ('C13a', 'C13', 'src/reader.c', "        chunk_meta = self->chunk_cur.hdr.chunk_meta & 0x0fff;", "        chunk_meta = self->chunk_cur.hdr.chunk_meta & 0x07ff;", 'user-data tag bit 11 dropped on read'),
 ('C14a', 'C14', 'src/raw.c', "    if (self->backend.fpos >= self->backend.fend) {\n        hdr->payload_prev_length = self->last_payload_length;\n    }", "    hdr->payload_prev_length = self->last_payload_length;", 'in-place header rewrites stamp payload_prev_length'),
 ('C15a', 'C15', 'src/wr_fsr.c', "    omit_data &= (0 != track->data_head.offset);", "    omit_data &= (0 != track->data_head.offset) || (sample_size_bits(self) > 8);", 'EQUIVALENT: first block may be omitted on request - but the omit shift register delays a request by one block, so the first block is never affected'),
 ('C16a', 'C16', 'src/core.c', "    entries_per_summary_u64 = round_up_to_multiple(entries_per_summary_u64, summary_decimate_factor);", "    entries_per_summary_u64 = (entries_per_summary_u64 / summary_decimate_factor) * summary_decimate_factor;\n    if (!entries_per_summary_u64) { entries_per_summary_u64 = summary_decimate_factor; }", 'EQUIVALENT for C16: entries_per_summary rounded down instead of up still satisfies every relation of the statement and is idempotent'),
 ('C17a', 'C17', 'src/copy.c', "                COE(jls_wr_utc(wr, signal_id, data->header.timestamp, data->timestamp));", "                if (data->header.timestamp) { COE(jls_wr_utc(wr, signal_id, data->header.timestamp, data->timestamp)); }", 'copy drops the UTC entry at sample id 0'),
 ('C18a', 'C18', 'src/crc32c_intel_sse4.c', "    for (; ((length > 0) && (0x7 & (intptr_t) data)); ++data, --length) {", "    for (; ((length > 1) && (0x7 & (intptr_t) data)); ++data, --length) {", 'EQUIVALENT: the byte skipped by the head loop is consumed by the tail loop'),
 ('C19a', 'C19', 'src/reader.c', "    rc = jls_raw_open(&core->raw, path, \"r\");\n    if (rc && (rc != JLS_ERROR_TRUNCATED)) {\n        goto exit;\n    }\n\n    GOE(jls_core_scan_initial(core));", "    rc = jls_raw_open(&core->raw, path, \"a\");\n    if (rc && (rc != JLS_ERROR_TRUNCATED)) {\n        goto exit;\n    }\n\n    GOE(jls_core_scan_initial(core));", 'reader opens every file writable (file header rewritten on close)'),
 ('C20a', 'C20', 'src/statistics.c', "        f1 = a->k / (double) kt;", "        f1 = b->k / (double) kt;", 'combine weights swapped'),
]


def sh(*a, **k):
    return subprocess.run(a, stdout=subprocess.PIPE, stderr=subprocess.STDOUT, text=True, **k)


def main():
    os.makedirs(OUT, exist_ok=True)
    sh('git', '-C', '/repo', 'worktree', 'remove', '--force', WT)
    r = sh('git', '-C', '/repo', 'worktree', 'add', '-q', WT, 'HEAD')
    meta = []
    try:
        for mid, prop, f, old, new, note in M:
            p = os.path.join(WT, f)
            s = open(p).read()
            if s.count(old) != 1:
                print('SKIP %s: pattern occurs %d times' % (mid, s.count(old)))
                continue
            open(p, 'w').write(s.replace(old, new))
            d = sh('git', '-C', WT, 'diff', '--', 'src', 'include', 'include_prv').stdout
            open(os.path.join(OUT, mid + '.diff'), 'w').write(d)
            sh('git', '-C', WT, 'checkout', '--', '.')
            meta.append({'id': mid, 'property': prop, 'file': f, 'note': note})
            print('made', mid)
    finally:
        sh('git', '-C', '/repo', 'worktree', 'remove', '--force', WT)
    json.dump(meta, open(os.path.join(OUT, 'index.json'), 'w'), indent=1)


if __name__ == '__main__':
    main()
