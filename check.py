#!/usr/bin/env python3
"""Driver for the jls runtime-monitoring checks.

  ./check.py <PROPERTY> [--tier quick|thorough] [--seed N] [--replay FILE] [--jobs N]

Builds the library objects from the *current* /repo working tree (content-addressed
cache under /verif/build), builds the harness, shards the cases over worker processes,
aggregates the JSON-lines records the monitors emit, matches violation keys against
/verif/known_findings.json, writes /verif/evidence/<PROPERTY>.json and prints the
VIOLATION / KNOWN-FINDING lines.  Exit 0: held on everything explored; 1: unlisted
violation; 2: harness failure / too many inconclusive cases.
"""
import sys, os, json, hashlib, subprocess, time, shutil, glob, fcntl, re, tempfile
from concurrent.futures import ThreadPoolExecutor

VERIF = os.path.dirname(os.path.abspath(__file__))
REPO = os.environ.get('VERIF_REPO', '/repo')
BUILD = os.path.join(VERIF, 'build')
HARNESS = os.path.join(VERIF, 'harness')
EVID = os.environ.get('VERIF_EVIDENCE_DIR') or (os.path.join(VERIF, 'evidence') if REPO == '/repo' else '/dev/shm/jlsverif-mutant-evidence')
JOBS = int(os.environ.get('VERIF_JOBS', '16'))

LIB_SOURCES = ['bit_shift', 'buffer', 'datatype', 'copy', 'core', 'crc32c', 'ec', 'log', 'msg_ring_buffer', 'raw', 'tmap',
               'reader', 'statistics', 'threaded_writer', 'track', 'wr_fsr', 'wr_ts', 'writer', 'backend_posix']

BASE_FLAGS = ['-std=gnu99', '-msse4.2', '-g', '-DJLS_VERIF', '-D_GNU_SOURCE']
ASAN_SAN = '-fsanitize=address,bounds,null,object-size,vla-bound,unreachable,nonnull-attribute,integer-divide-by-zero'
VARIANTS = {
    'plain': {'cc': 'gcc', 'flags': ['-O1']},
    'asan': {'cc': 'gcc', 'flags': ['-O1', '-fno-omit-frame-pointer', ASAN_SAN, '-fno-sanitize-recover=all']},
    'tsan': {'cc': 'gcc', 'flags': ['-O1', '-fno-omit-frame-pointer', '-fsanitize=thread']},
}
WRAP_IO = ['open', 'close', 'read', 'write', 'lseek', 'ftruncate', 'fsync']
WRAP_THREAD = ['pthread_create', 'pthread_join', 'pthread_mutex_lock', 'pthread_mutex_unlock', 'pthread_cond_wait',
               'pthread_cond_signal', 'nanosleep', 'clock_gettime', 'pthread_mutex_init', 'pthread_mutex_destroy',
               'pthread_cond_init', 'pthread_cond_destroy']
WRAP_DISC = ['jls_mrb_alloc', 'jls_mrb_peek', 'jls_mrb_pop', 'jls_wr_flush', 'jls_wr_user_data', 'jls_wr_fsr',
             'jls_wr_fsr_omit_data', 'jls_wr_annotation', 'jls_wr_utc', 'jls_wr_source_def', 'jls_wr_signal_def', 'jls_wr_close']

# harness name -> (sources, wrapped symbols, extra link flags)
HARNESSES = {
    'h_file': (['h_file.c', 'vcommon.c', 'model.c', 'verify.c', 'gen.c', 'iolog.c', 'jlsdec.c'], WRAP_IO, []),
    'h_crash': (['h_crash.c', 'vcommon.c', 'model.c', 'verify.c', 'gen.c', 'iolog.c', 'jlsdec.c'], WRAP_IO, []),
    'h_flip': (['h_flip.c', 'vcommon.c', 'model.c', 'verify.c', 'gen.c', 'iolog.c', 'jlsdec.c'], WRAP_IO, []),
    'h_twr': (['h_twr.c', 'coop.c', 'vcommon.c', 'model.c', 'verify.c', 'gen.c', 'iolog.c', 'jlsdec.c'], WRAP_IO + WRAP_THREAD + WRAP_DISC, []),
    'h_mrb': (['h_mrb.c', 'vcommon.c'], [], []),
    'h_api': (['h_api.c', 'vcommon.c', 'model.c', 'verify.c', 'gen.c', 'iolog.c', 'jlsdec.c'], WRAP_IO, []),
    'h_def': (['h_def.c', 'vcommon.c', 'model.c', 'verify.c', 'gen.c', 'iolog.c', 'jlsdec.c'], WRAP_IO, []),
    'h_crc': (['h_crc.c', 'vcommon.c', 'jlsdec.c'], [], []),
    'h_stats': (['h_stats.c', 'vcommon.c'], [], []),
}


def sh(cmd, **kw):
    return subprocess.run(cmd, stdout=subprocess.PIPE, stderr=subprocess.STDOUT, text=True, **kw)


def tree_hash():
    h = hashlib.sha256()
    for sub in ('src', 'include', 'include_prv'):
        for root, dirs, files in sorted(os.walk(os.path.join(REPO, sub))):
            dirs.sort()
            for f in sorted(files):
                p = os.path.join(root, f)
                h.update(p.encode())
                with open(p, 'rb') as fh:
                    h.update(fh.read())
    return h.hexdigest()


def harness_hash():
    h = hashlib.sha256()
    for p in sorted(glob.glob(os.path.join(HARNESS, '*.[ch]'))):
        h.update(p.encode())
        with open(p, 'rb') as fh:
            h.update(fh.read())
    return h.hexdigest()


class BuildError(Exception):
    pass


def build(variant, harness, extra_defs=()):
    """Returns path of the harness binary built against the current /repo tree."""
    v = VARIANTS[variant]
    flags = BASE_FLAGS + v['flags'] + list(extra_defs)
    th = hashlib.sha256((tree_hash() + ' '.join(flags) + v['cc']).encode()).hexdigest()[:16]
    hh = hashlib.sha256((th + harness_hash()).encode()).hexdigest()[:16]
    os.makedirs(BUILD, exist_ok=True)
    libdir = os.path.join(BUILD, '%s-%s' % (variant, th))
    bindir = os.path.join(libdir, 'bin-' + hh)
    exe = os.path.join(bindir, harness)
    lock = open(os.path.join(BUILD, '.lock'), 'w')
    fcntl.flock(lock, fcntl.LOCK_EX)
    try:
        if os.path.exists(exe):
            return exe
        # prune stale directories of this variant (other tree hashes; keep the 3 most recent) and stale bin dirs
        old = sorted((d for d in glob.glob(os.path.join(BUILD, variant + '-*')) if d != libdir), key=os.path.getmtime, reverse=True)
        for d in old[3:]:
            shutil.rmtree(d, ignore_errors=True)
        for d in glob.glob(os.path.join(libdir, 'bin-*')):
            if d != bindir:
                shutil.rmtree(d, ignore_errors=True)
        os.makedirs(os.path.join(libdir, 'lib'), exist_ok=True)
        os.makedirs(bindir, exist_ok=True)
        inc = ['-I' + os.path.join(REPO, 'include'), '-I' + os.path.join(REPO, 'include_prv')]
        hinc = inc + ['-I' + os.path.join(REPO, 'src')]
        jobs = []
        for s in LIB_SOURCES:
            o = os.path.join(libdir, 'lib', s + '.o')
            if not os.path.exists(o):
                jobs.append([v['cc']] + flags + inc + ['-D__FILENAME__="%s.c"' % s, '-c', os.path.join(REPO, 'src', s + '.c'), '-o', o])
        # software CRC build side by side (C18): same sources, renamed symbols
        o = os.path.join(libdir, 'lib', 'crc32c_swbuild.o')
        if not os.path.exists(o):
            jobs.append([v['cc']] + flags + inc + ['-D__FILENAME__="crc32c.c"', '-DJLS_OPTIMIZE_CRC_DISABLE=1', '-Djls_crc32c=jls_crc32c_sw',
                                                   '-Djls_crc32c_hdr=jls_crc32c_hdr_sw', '-c', os.path.join(REPO, 'src', 'crc32c.c'), '-o', o])
        srcs, wraps, extra = HARNESSES[harness]
        hobjs = []
        for s in srcs:
            o = os.path.join(bindir, s[:-2] + '.o')
            hobjs.append(o)
            if not os.path.exists(o):
                jobs.append([v['cc']] + flags + hinc + ['-I' + HARNESS, '-Wall', '-Wextra', '-Wno-unused-parameter', '-c', os.path.join(HARNESS, s), '-o', o])

        def run(cmd):
            r = sh(cmd)
            return (cmd, r.returncode, r.stdout)
        with ThreadPoolExecutor(JOBS) as ex:
            for cmd, rc, out in ex.map(run, jobs):
                if rc:
                    raise BuildError('compile failed: %s\n%s' % (' '.join(cmd), out))
        libobjs = [os.path.join(libdir, 'lib', s + '.o') for s in LIB_SOURCES] + [os.path.join(libdir, 'lib', 'crc32c_swbuild.o')]
        link = [v['cc']] + flags + hobjs + libobjs + ['-Wl,--wrap=' + w for w in wraps] + extra + ['-lm', '-lpthread', '-o', exe + '.tmp']
        r = sh(link)
        if r.returncode:
            raise BuildError('link failed: %s\n%s' % (' '.join(link), r.stdout))
        os.rename(exe + '.tmp', exe)
        return exe
    finally:
        fcntl.flock(lock, fcntl.LOCK_UN)
        lock.close()


# ------------------------------------------------------------------------------------------
# check registry: property -> list of runs
# run = dict(harness, variant, args (list), quick (cases), thorough (cases), props (collected), env)
# ------------------------------------------------------------------------------------------
def file_run(mode, quick, thorough, props, variant='plain', extra=()):
    return dict(harness='h_file', variant=variant, args=['--mode', mode] + list(extra), quick=quick, thorough=thorough, props=props, name=mode)


CHECKS = {}
LEVELS = {}
ASSUME = {}
RULES = {}

DECODER_ASSUMPTIONS = [
    'string/JSON annotation payloads carry the writer\'s {0,0x1f} terminator, i.e. one byte beyond data_size (accepted by the decoder)',
    'independent decoder takes the field order inside SOURCE_DEF/SIGNAL_DEF payloads, the {0,0x1f} string terminator and "FSR level-1 index offset 0 = omitted block" from the writer (format.h leaves them open); a symmetric deviation there is invisible',
    'the submission model regenerates sample/payload bytes from the same seeded generator that fed the API call',
]

CHECKS['C01'] = [file_run('c01', 1200, 30000, ['C01'])]
LEVELS['C01'] = 'exploration'
RULES['C01'] = 'case = generated writer program (1-3 FSR signals: type x definition class x first id x length class x partition class), closed, length and >=60 windows compared bit-for-bit with the submitted stream; distinct = distinct (type,def,first,len,partition,pattern) tuples of signals that accepted data. One case in four also defines a lower-numbered FSR signal that is never written (the open-time scan of first sample ids has to step over it). The far mode of C14 reads files whose chunk positions exceed 2^32 against the same model'
ASSUME['C01'] = DECODER_ASSUMPTIONS

CHECKS['C02'] = [file_run('c02', 400, 5000, ['C02'], extra=['--cpu', '600'])]   # the long-double oracle is O(samples) per request
LEVELS['C02'] = 'exploration'
RULES['C02'] = 'case = one FSR signal of a summarisable type with enough samples for the target summary level; ~80 (start,increment,count) requests per case checked against long-double statistics of the submitted samples with the tolerances of DESIGN 4-C02; distinct = (type,def class,levels on disk,first id class,pattern,gap). One case in three of a <= 8-bit type writes block-constant data (omitted blocks, blocks that are constant but for one sample, blocks of equal bytes whose samples differ inside a byte): level-0 statistics and request edges are then computed from rebuilt blocks'
ASSUME['C02'] = ['requests on 64-bit types that need level 0 may return UNSUPPORTED_FILE (the reader cannot summarise 64-bit samples directly)', 'windows whose widened range contains gap fill or non-finite samples are skipped, as the statement excludes them']

CHECKS['C09'] = [file_run('c09', 1500, 20000, ['C09'])]
LEVELS['C09'] = 'exploration'
RULES['C09'] = 'case = one signal written with 1-6 gap/overlap events (classes g0..g8 / o0..o6 incl. larger than the 32 KiB fill scratch); length, windows and (floats) stored level-1 summaries compared with the fill / keep-first model; distinct = (type,def,first,event sequence). Overlap class 9: a stale block stamped k * 2^32 (+ less than its length) before the expected id - all of it old'
ASSUME['C09'] = DECODER_ASSUMPTIONS

CHECKS['C11'] = [file_run('c11', 800, 10000, ['C11'])]
LEVELS['C11'] = 'exploration'
RULES['C11'] = 'case = annotations on the global signal and/or FSR signals (decimate factor, count vs factor^k, timestamp pattern with equal runs across index-chunk boundaries); full iteration + seeks at/around every class of timestamp + early stop; distinct = per-signal (kind, factor, count class, timestamp pattern)'
ASSUME['C11'] = ['annotation timestamps of FSR signals are compared after rebasing by the first sample id, as reader.h documents']

CHECKS['C12'] = [file_run('c12', 1000, 10000, ['C12'])]
LEVELS['C12'] = 'exploration'
RULES['C12'] = 'case = one FSR signal with n UTC anchors (count class incl. 999/1000/1001, decimate factor, rate, drift, irregular spacing, equal times); full and partial iteration exact, 60 conversions per case against exact rational interpolation; distinct = (count class, factor, rate, first id, data, irregular, equal, drift). With factor 2, one case in six holds more than 2^15 entries (the index reaches level 15 and that level\'s list has more than one chunk)'
ASSUME['C12'] = ['tolerance 1 tick + |k|*2^-50 (double interpolation), anchors exact; inverse checked only where time advances >= 1 tick per sample']

CHECKS['C13'] = [file_run('c13', 600, 5000, ['C13'])]
LEVELS['C13'] = 'exploration'
RULES['C13'] = 'case = random source/signal id sets, strings of 8 classes, user data of 10 size classes, 0-5 calls that must be rejected; definitions and user data compared through the reader and the decoder; rejected calls must cause 0 backend writes and leave the file byte-identical to the run without them; distinct = (counts, size classes, rejects)'
ASSUME['C13'] = DECODER_ASSUMPTIONS

CHECKS['C15'] = [file_run('c15', 1500, 10000, ['C15'])]
LEVELS['C15'] = 'exploration'
RULES['C15'] = 'case = same stream written twice (omission requests toggled at random calls in run 2; constant/non-constant block patterns for <=8-bit types); every SUMMARY payload bit-identical, lengths equal, first block stored, reads checked; distinct = (type,def,pattern,toggles,partial tail,omitted count class); non-trivial = at least one block omitted'
ASSUME['C15'] = DECODER_ASSUMPTIONS

ALL_FILE_MODES = ['c01', 'c02', 'c09', 'c11', 'c12', 'c13', 'c15', 'mix']
CHECKS['C05'] = [file_run('mix', 150, 6000, ['C05'])] + [file_run(m, 25, 800, ['C05']) for m in ALL_FILE_MODES if m != 'mix']
CHECKS['C05'].append(dict(harness='h_crash', variant='plain', args=[], quick=2 * 16, thorough=60 * 16, props=['C05'], name='crash'))
LEVELS['C05'] = 'exploration'
RULES['C05'] = 'every closed file produced by every generator mode (and copies made by jls_copy) is decoded by the independent decoder: rules R1-R7 of DESIGN 3.3 plus content comparison with the submission model; distinct = (producer, signal types/def classes, levels on disk)'
ASSUME['C05'] = DECODER_ASSUMPTIONS

CHECKS['C14'] = [file_run(m, 30 if m != 'mix' else 120, 1200, ['C14']) for m in ALL_FILE_MODES] + [file_run('far', 160, 3000, ['C14', 'C01', 'C11', 'C12', 'C13'])]   # far: file positions beyond 2^32 (a hole only the library sees)   # + the threaded-writer run appended below
LEVELS['C14'] = 'exploration'
RULES['C14'] = 'every backend write of every writer run (synchronous writer programs of all file modes; threaded-writer programs under the controlled scheduler, where write() is a scheduling point and definitions are issued by application threads while the writer thread streams) is judged online by the write-once monitor against the previous bytes (shadow copy): appends, header link patches, head-table updates, file header at close; distinct = (mode, rewrite volume classes). Mode far: after the definitions and a few calls the append position of the synchronous writer is moved 2^32 .. 2^40 bytes ahead (jls_raw_chunk_seek on its raw handle; the interposed lseek/ftruncate hide the hole from the real file and from the shadow copy), so every position stored or returned to from then on needs more than 32 bits; all rules as before, and the library reader then reads the file through the same view and is compared with the model (lengths, samples, statistics, annotations, UTC, user data, definitions)'
ASSUME['C14'] = ['the monitor sees exactly the write()/ftruncate() calls of backend_posix.o (link-time interposition); the reader repair path is out of scope of the property']

CHECKS['C17'] = [file_run('mix', 80, 3000, ['C17']), file_run('c13', 100, 3000, ['C17']), dict(harness='h_crash', variant='plain', args=['--copy-every', '5'], quick=2 * 16, thorough=40 * 16, props=['C17'], name='crash')]
LEVELS['C17'] = 'exploration'
RULES['C17'] = 'case = mixed program (several signals/types, omission, annotations, UTC, user data) or definition/user-data program (long strings, payloads of 1 MiB-12 .. 2 MiB around the copy buffer sizes) closed, copied with jls_copy; copy decoded as a closed file and its reader dump compared with the source dump; distinct = (signal mix, levels, omission used)'
ASSUME['C17'] = ['statistics are compared after rounding to f32 (copy recomputes summaries from the same samples)']

def crash_run(quick_programs, thorough_programs, props, variant='plain', extra=()):
    return dict(harness='h_crash', variant=variant, args=list(extra), quick=quick_programs * 16, thorough=thorough_programs * 16, props=props, name='crash')


CHECKS['C03'] = [crash_run(6, 64, ['C03'])]
LEVELS['C03'] = 'fault_enumeration'
RULES['C03'] = 'program = 1-3 signals of mixed types (1-4 summary levels, omission, annotations/UTC/user data interleaved, late definitions) run under the backend write log; EVERY cut between two writes and byte prefixes of the next write (all prefixes of writes <= 40 bytes, 6 prefixes otherwise; quick: for every 4th write) is materialised and opened by the real reader in its own process; everything exposed must be an unaltered in-order part of what was submitted (samples bit-exact, statistics by the C02 oracle); clause 2 (cut between writes, definitions on disk): open succeeds and at most the block in flight is lost. evaluations = crash images; distinct = program classes. Programs with large user data keep complete chunk images (8-byte aligned, consistent CRCs: a JLS file kept as user data) in two of the payloads; cuts behind the embedded images are always enumerated'
ASSUME['C03'] = ['crash model: a prefix of the backend write sequence reaches the disk in order, the last write possibly partially (no reordering of writes by the OS)', 'synchronous writer programs only in this run; files <= ~60 KiB'] + DECODER_ASSUMPTIONS

CHECKS['C19'] = [file_run('mix', 100, 5000, ['C19']), crash_run(3, 40, ['C19'])]

CHECKS['C04'] = [dict(harness='h_flip', variant='plain', args=[], quick=3 * 16, thorough=12 * 16, props=['C04'], name='flip')]
LEVELS['C04'] = 'fault_enumeration'
RULES['C04'] = 'file = small closed file (two signals of different widths, 2 summary levels, annotation and UTC index levels, user data, an omitted block); faults: EVERY single-bit flip of the file (exhaustive per file), sampled 2/3-bit combinations inside one protected region, bursts of 1..32 bits, zero/0xFF/random overwrites incl. several chunks, END chunk and file-header length; each altered copy is opened in its own process and every reader result must be an error, the truth, or a correct prefix. evaluations = faults; distinct = (family, region kind, chunk tag, outcome). Family f: the crc32 field of a chunk header that links to a next item is replaced by the CRC of the same header with item_next = 0, whole or with its 1-3 low bytes kept (one burst of <= 32 bits; what a writer leaves when it stops inside a link update): in a closed file every iteration must deliver everything or report an error'
ASSUME['C04'] = ['pad bytes between payload and CRC are not covered by any CRC: faults there must simply not change what is returned (counted separately)',
                 'family d (arbitrary overwrites) is outside the guaranteed detection of CRC-32C: an altered file whose CRCs all verify with the independent implementation is counted inconclusive, never a violation'] + DECODER_ASSUMPTIONS
LEVELS['C19'] = 'fault_enumeration'
RULES['C19'] = 'closed files: full read mix under the I/O log, 0 writes / no writable open / identical bytes; crash images: see h_crash'
ASSUME['C19'] = []


EXHAUSTIVE = {}


def twr_run(focus, quick, thorough, props, variant='plain', engine='coop', name=None, env=None):
    return dict(harness='h_twr', variant=variant, args=['--engine', engine, '--focus', focus], quick=quick, thorough=thorough, props=props, name=name or ('twr-' + focus + '-' + engine), env=env or {})


TSAN_ENV = {'TSAN_OPTIONS': 'halt_on_error=0:exitcode=66:second_deadlock_stack=1:history_size=4'}
CHECKS['C06'] = [twr_run('c06', 400, 40000, ['C06']), twr_run('c06', 8, 200, ['C06'], variant='tsan', engine='real', env=TSAN_ENV)]
CHECKS['C14'].append(twr_run('c06', 300, 20000, ['C14']))
CHECKS['C05'].append(twr_run('c06', 150, 10000, ['C05']))
LEVELS['C06'] = 'exploration'
RULES['C06'] = 'case = program (1-2 application threads, 10-120 calls mixing fsr of several signals/widths, annotation, utc, user data, omit, flush; message sizes chosen against a queue of 160 B - 64 KiB so that wrap, empty-reset, full and rejection occur; drop-on-overflow on/off) x schedule (policy random / PCT depth 0-3 / starve-consumer / starve-producer / round-robin, virtual-time jump probability 0 - 1). Controlled scheduler at every lock/unlock/wait/signal/sleep point of the real code; file must decode, equal the submission model applied in queue order and equal a literal synchronous-writer reference; lockset monitor on queue and writer state; queue regions checked at the real call sites. Plus real-thread runs under ThreadSanitizer with seeded delay injection. distinct = configuration x schedule signature'
ASSUME['C06'] = ['schedules are produced at synchronisation/suspension-point granularity (seeded policies), not exhaustively; instruction-level interleavings only through ThreadSanitizer on real threads',
                 'ThreadSanitizer reports whose two racing source lines only touch the polled control words flush_processed_id / quit / bk of jls_twr_s are not counted (they are neither queue nor file state; the C07 flush oracle checks the behaviour they implement)',
                 'the queue size is shrunk through the JLS_VERIF hook; with the 64 MiB default none of wrap/full/reject is reachable'] + DECODER_ASSUMPTIONS
CHECKS['C07'] = [twr_run('c07', 1200, 40000, ['C07'])]
LEVELS['C07'] = 'exploration'
RULES['C07'] = 'case = flush-heavy program (a unique marker message before every checked flush; flush and close at every position; 1-2 producers; queues small enough to be full) x schedule (as C06, incl. consumer starvation with virtual-time jumps so that the 5 s send and 20 s flush time-outs are reached). At the instant jls_twr_flush returns 0 the I/O log must contain the marker write followed by an fsync; at jls_twr_close return the descriptor is closed and the file decodes and holds every accepted call (C06 oracle); an empty enabled set with unfinished threads = deadlock (reported with its wait-for state); a call exceeding 400k scheduling points = no progress. distinct = configuration x schedule signature. One case in ten: close on a queue filled to the last byte (drop-on-overflow, one- and two-sample calls until nothing fits) while the writer thread is starved for 9 virtual seconds - longer than the 5 s send timeout, so close has to try again'
ASSUME['C07'] = ['liveness is judged in logical steps under virtual time, never by wall clock; "forever" = no enabled thread and no sleeper, or step budget exhausted',
                 'error returns (BUSY, TIMED_OUT) are legal outcomes of flush/send under starvation and only relax what must be on disk']


def simple_run(harness, name, quick, thorough, props, variant='plain', extra=()):
    return dict(harness=harness, variant=variant, args=list(extra), quick=quick, thorough=thorough, props=props, name=name)


CHECKS['C18'] = [simple_run('h_crc', 'crc', 85, 145, ['C18'])]
LEVELS['C18'] = 'exploration'
EXHAUSTIVE['C18'] = True
RULES['C18'] = 'cases 0-63: every length 0..4096 x every start alignment 0..7 x 7 contents (zeros, ones, ramp, 4 random) - exhaustive over length x alignment; case 64: all 8x256 table entries vs. polynomial + known answers; cases 65-68: random chunk headers through the 28-byte fast path; cases 69-80: twelve lengths from 4 KiB to 1 MiB (around 64 KiB densely) at every start offset 0..63 within a cache line, random content; further cases: random 1-16 MiB buffers. Hardware path and table path (same source built with JLS_OPTIMIZE_CRC_DISABLE, linked side by side) vs. a bit-serial reference. distinct = (len mod 8, length class, alignment)'
ASSUME['C18'] = ['exhaustive only over length x alignment for lengths <= 4096; contents are sampled', 'the reference is a bit-serial CRC anchored by the CRC-32C check value 0xE3069283']

CHECKS['C20'] = [simple_run('h_stats', 'stats', 20000, 400000, ['C20'])]
LEVELS['C20'] = 'exploration'
RULES['C20'] = 'case = sequence (length class, shape of 6, magnitude 1e-30..1e30, f32-representable or not); compute_f64/_f32, repeated add, every split point (n<=64) or 24 random ones, random binary groupings, in-place chains; count/min/max exact, mean within 8 n eps max|x|, s within 8 n eps sum(x^2); aliasing and empty-operand identity bit-exact; distinct = (length class, shape, magnitude class, f32)'
ASSUME['C20'] = ['reference in long double (64-bit mantissa) two-pass arithmetic']

CHECKS['C08'] = [simple_run('h_mrb', 'mrb', 17 + 40, 33 + 2000, ['C08'])]
LEVELS['C08'] = 'exploration'
RULES['C08'] = 'cases 0..k: breadth-first exploration of ALL operation sequences (alloc of every size 0..capacity, pop, peek) of the real queue for one small capacity each (quick 8..24, thorough 8..40), memoised on (head, tail, count, queued regions); remaining cases: 20k-100k random operations on capacities 49..65536 with sizes biased to 0, 1 and within 16 of the capacity. Oracle: reference deque built from the returned pointers; distinct = exploration unit (capacity / random configuration)'
ASSUME['C08'] = ['"fits contiguously" is judged with a reserve of 12 bytes beyond the 4-byte length prefix (the figure in the property quantifier); the wrap marker is modelled as a queue item that makes the bytes up to the end of the buffer unusable until consumed',
                 'exhaustive only for the small capacities listed in coverage; a capacity whose state space exceeds the state limit is reported as truncated, not complete']

CHECKS['C16'] = [simple_run('h_def', 'def', 300 + 60 + 16, 300 + 60 + 170, ['C16'], extra=['--cpu', '400'])]   # a thorough case of huge sizes needs ~130 CPU-seconds since every integer tuple is normalised twice (fixed-point twin)
LEVELS['C16'] = 'exploration'
RULES['C16'] = 'cases 0-299: complete grid {0,1,9,10,11,16,17,31,32,33,63,64,65,100,127,128,129,255,256,257}^4 x 15 types through jls_core_signal_def_validate/_align (relations, minimums, idempotence, zero = per-width default), one (type, samples_per_data) slice per case; cases 300-359: 12k (thorough 200k) sampled tuples each from 4 classes (<=70000, boundary 2^k+-1 / UINT32_MAX-k, mixed, uniform 32-bit); remaining cases: definition -> file -> jls_rd_signal -> second file, parameters identical. A normalisation above 1 CPU-second is a violation. distinct = exploration unit. Every tuple of an integer type is also normalised with a fixed-point exponent q in {1..255}: accepted/rejected alike and stored with the same six parameters as with q = 0'
ASSUME['C16'] = ['the 4x32-bit domain is sampled and boundary-biased, not covered: the symbolic query named in the property quantifier is outside this technique family',
                 '"zero fields take the per-width defaults" is checked as: replacing a zero field by the value the all-zero definition of that width yields gives the same result (no independent table of defaults exists in the documentation)']

C10_ENV = {'ASAN_OPTIONS': 'abort_on_error=1:detect_leaks=1:allocator_may_return_null=1:max_allocation_size_mb=1024:handle_abort=1:leak_check_at_exit=0',
           'UBSAN_OPTIONS': 'print_stacktrace=1', 'LSAN_OPTIONS': 'print_suppressions=0'}
CHECKS['C10'] = [dict(harness='h_api', variant='asan', args=[], quick=2000, thorough=150000, props=['C10'], name='api', env=C10_ENV),
                 dict(harness='h_file', variant='asan', args=['--mode', 'c01'], quick=60, thorough=2000, props=['C10'], name='asan-c01', env=C10_ENV),
                 dict(harness='h_file', variant='asan', args=['--mode', 'c09'], quick=60, thorough=2000, props=['C10'], name='asan-c09', env=C10_ENV),
                 dict(harness='h_file', variant='asan', args=['--mode', 'c02', '--cpu', '900', '--wall', '2400'], quick=60, thorough=1500, props=['C10'], name='asan-c02', env=C10_ENV),   # the O(samples) oracle under ASan: a thorough case needed more than the 120 CPU-seconds of the plain build
                 dict(harness='h_file', variant='asan', args=['--mode', 'c11'], quick=40, thorough=1000, props=['C10'], name='asan-c11', env=C10_ENV),
                 dict(harness='h_file', variant='asan', args=['--mode', 'c12'], quick=40, thorough=1000, props=['C10'], name='asan-c12', env=C10_ENV),
                 dict(harness='h_file', variant='asan', args=['--mode', 'c13'], quick=40, thorough=1000, props=['C10'], name='asan-c13', env=C10_ENV),
                 dict(harness='h_file', variant='asan', args=['--mode', 'mix'], quick=40, thorough=1000, props=['C10'], name='asan-mix', env=C10_ENV)]
CHECKS['C10'].append(dict(harness='h_api', variant='asan', args=['--hostile', '1'], quick=int(os.environ.get('VERIF_HOSTILE_N', '1200')), thorough=int(os.environ.get('VERIF_HOSTILE_N', '1200')), props=['C10'], name='api-hostile', env=C10_ENV))   # a FIXED set of CRC-consistent hostile files (own seed): same files in both tiers and for every VERIF_SEED
CHECKS['C10'].append(twr_run('c06', 150, 6000, ['C10'], variant='asan', name='twr-c06-coop-asan', env=C10_ENV))   # the queue is the tail of one heap block: its last bytes are guarded by ASan only
LEVELS['C10'] = 'exploration'
RULES['C10'] = 'case = call sequence over the public API: a writer phase (sync or threaded; ids from {defined, 0, 255, 256, 300, 4095, 65535}, definition parameters from {0,1,9,10,255,65535..UINT32_MAX}, NULL/empty/UTF-8/70 KiB/1 MiB strings, lengths 0..70000, payloads up to 3 MiB) followed by 1-4 phases of reader calls on the written file or on a missing/non-JLS/truncated/bit-damaged file (windows negative/0/in range/one past/INT64_MAX, exact-size buffers, NULL callbacks), jls_copy, raw navigation at arbitrary offsets, statistics/crc. One AddressSanitizer+UBSan(bounds,null,div-by-zero,...) process per sequence with a CPU limit; LeakSanitizer is run once every handle is closed. The well-formed generators of C01/C09/C12/C13/mix are replayed under the same build (exact caller buffers). Violation key = (termination kind, sanitizer report kind, first frame in /repo/src, API call in flight). distinct = API functions reached + (function, error code) pairs observed. Hostile files (run api-hostile, a fixed set of 1200 sequences with its own seed - the same files for every VERIF_SEED and in both tiers, synchronous writer only): each sequence writes a file and works on 1-3 CRC-consistent alterations of it (1-3 edits: a header field - links, tag, chunk_meta, previous length - or a 1/2/4/8-byte payload field replaced by 0, 1, +-1, 2^31, 2^32-1, 2^63, the file size, another chunk\'s offset, ...; header and payload CRC recomputed; one in four also cut at a chunk boundary so that the repair runs) - what the raw API can write - followed by reader calls and jls_copy. On those files only sanitizer reports and signals decide; running into the CPU limit is counted inconclusive (a file may announce 2^56 samples of gap, which copy and repair walk faithfully); one case may write at most 1 GiB (RLIMIT_FSIZE)'
ASSUME['C10'] = ['AddressSanitizer is a red-zone tool: non-adjacent and intra-object overflows and reuse beyond the quarantine are not detected',
                 'UBSan is restricted to bounds, null, object-size, vla-bound, unreachable, nonnull-attribute and integer-divide-by-zero: the tree contains benign alignment / pointer-overflow instances that no property forbids',
                 '"valid pointers": NULL is passed only where the headers allow an absent value (strings of definitions, zero-length data, optional outputs) and for callbacks']

# ------------------------------------------------------------------------------------------
def load_known():
    p = os.path.join(VERIF, 'known_findings.json')
    if not os.path.exists(p):
        return []
    with open(p) as f:
        return json.load(f).get('findings', [])


def frame_of(stderr):
    """first frame inside /repo/src from a sanitizer report, and the report kind"""
    kind = None
    m = re.search(r'ERROR: AddressSanitizer: ([\w-]+)', stderr)
    if m:
        kind = 'asan:' + m.group(1)
    m2 = re.search(r'runtime error: ([^\n]+)', stderr)
    if not kind and m2:
        kind = 'ubsan:' + re.sub(r'[0-9]+', 'N', m2.group(1))[:60]
    m3 = re.search(r'ERROR: LeakSanitizer', stderr)
    if not kind and m3:
        kind = 'lsan:leak'
    frame = None
    for fm in re.finditer(r'#\d+ 0x[0-9a-f]+ in (\w+) (?:/repo|' + re.escape(REPO) + r')/src/([\w.]+):(\d+)', stderr):
        frame = '%s@%s' % (fm.group(1), fm.group(2))
        break
    if not frame:
        fm = re.search(r'(?:/repo|' + re.escape(REPO) + r')/src/([\w.]+):(\d+):\d+: runtime error', stderr)
        if fm:
            frame = fm.group(1)
    return kind, frame


CONTROL_WORDS = ('flush_processed_id', 'flush_send_id', '->quit', '->bk')


def src_line(fname, line):
    try:
        with open(os.path.join(REPO, 'src', fname)) as f:
            return f.readlines()[int(line) - 1]
    except Exception:
        return ''


def tsan_keys(stderr):
    """one (key, message) per ThreadSanitizer report that is not on the control-word allow-list"""
    out = []
    for rep in stderr.split('WARNING: ThreadSanitizer: ')[1:]:
        kind = rep.split('\n', 1)[0].split('(')[0].strip()
        frames = []
        inlib = True
        for m in re.finditer(r'(?:Previous )?(?:[Ww]rite|[Rr]ead|[Aa]tomic \w+) of size \d+[^\n]*\n((?:\s+#\d+[^\n]*\n)+)', rep):
            fm = re.search(r'#\d+ (\w+) (?:/repo|' + re.escape(REPO) + r')/src/([\w.]+):(\d+)', m.group(1))
            if fm:
                frames.append((fm.group(1), fm.group(2), fm.group(3)))
            else:
                inlib = False
        frames = frames[:2]
        if kind == 'data race' and not frames:
            # both accesses are in harness code: a defect of the harness, not of jls -> make it loud as a harness failure key
            out.append(('tsan-harness|data race', 'ThreadSanitizer: race inside the harness itself\n' + rep[:1200]))
            continue
        if kind == 'data race' and len(frames) == 2:
            lines = [src_line(f[1], f[2]) for f in frames]
            if all(any(w in ln for w in CONTROL_WORDS) and 'mrb' not in ln and '->wr' not in ln for ln in lines):
                continue
        fk = '+'.join(sorted('%s@%s' % (f[0], f[1]) for f in frames)) or '-'
        out.append(('tsan|%s|%s' % (kind, fk), 'ThreadSanitizer: %s between %s\n%s' % (kind, fk, rep[:1500])))
    return out


def run_check(prop, tier, seed, jobs, replay=None):
    t0 = time.time()
    runs = CHECKS[prop]
    if os.environ.get('VERIF_VARIANT'):
        runs = [dict(r, variant=os.environ['VERIF_VARIANT']) for r in runs]
    scratch_root = tempfile.mkdtemp(prefix='jlsverif-', dir='/dev/shm')
    viol = {}      # (prop,key) -> first record
    violn = {}
    feats = {}     # feature -> nontrivial
    counts = {}
    samples = []
    evaluations = 0
    inconclusive = 0
    abnormal = 0
    notes = []
    harness_fail = None
    try:
        for run in runs:
            try:
                exe = build(run['variant'], run['harness'], run.get('defs', ()))
            except BuildError as e:
                print('HARNESS-FAILURE: %s' % e)
                return 2
            n = run[tier]
            if replay is not None:
                if replay.get('run') != run['name']:
                    continue
                n = 1
            nj = min(jobs, n) if n else 0
            procs = []
            for j in range(nj):
                cnt = (n - j + nj - 1) // nj
                sc = os.path.join(scratch_root, '%s-%d' % (run['name'], j))
                os.makedirs(sc, exist_ok=True)
                first = j
                stride = nj
                if replay is not None:
                    first, stride, cnt = replay['idx'], 1, 1
                cmd = [exe] + run['args'] + ['--seed', str(seed), '--first', str(first), '--stride', str(stride), '--count', str(cnt), '--scratch', sc,
                                             '--thorough', '1' if tier == 'thorough' else '0']
                env = dict(os.environ)
                env.update(run.get('env', {}))
                env.setdefault('ASAN_OPTIONS', 'abort_on_error=1:detect_leaks=0:allocator_may_return_null=1:max_allocation_size_mb=2048:handle_abort=1')
                env.setdefault('UBSAN_OPTIONS', 'print_stacktrace=1')
                out = open(os.path.join(sc, 'out.jsonl'), 'w+')
                procs.append((subprocess.Popen(cmd, stdin=subprocess.DEVNULL, stdout=out, stderr=subprocess.DEVNULL, env=env), out, cmd))
            for p, out, cmd in procs:
                rc = p.wait()
                out.seek(0)
                done = False
                for line in out:
                    line = line.strip()
                    if not line or line[0] != '{':
                        continue
                    try:
                        rec = json.loads(line)
                    except ValueError:
                        continue
                    t = rec.get('t')
                    if t == 'done':
                        done = True
                        evaluations += rec['cases']
                    elif t == 'inner-done':
                        evaluations += rec['cases']
                    elif t == 'v':
                        if rec['p'] not in run['props'] and rec['p'] != prop:
                            continue
                        if rec['p'] != prop:
                            continue
                        k = (rec['p'], rec['k'])
                        violn[k] = violn.get(k, 0) + 1
                        if k not in viol:
                            rec['run'] = run['name']
                            viol[k] = rec
                    elif t == 'f':
                        if rec['p'] == prop:
                            feats[rec['f']] = max(feats.get(rec['f'], 0), rec['nt'])
                    elif t == 'n':
                        if rec['p'] == prop:
                            counts[rec['name']] = counts.get(rec['name'], 0) + rec['v']
                    elif t == 's':
                        if rec['p'] == prop and len(samples) < 6:
                            samples.append({'case': rec['idx'], 'mode': run['name'], 'program': rec['s']})
                    elif t == 'note':
                        if rec['p'] == prop and len(notes) < 20:
                            notes.append(rec['m'])
                    elif t == 'x':
                        abnormal += 1
                        if rec['how'] == 'wall':
                            inconclusive += 1
                            continue
                        if 'ThreadSanitizer' in rec.get('stderr', ''):
                            for key, msg in tsan_keys(rec['stderr']):
                                k = (prop, key)
                                violn[k] = violn.get(k, 0) + 1
                                if k not in viol:
                                    viol[k] = {'p': prop, 'k': key, 'm': msg, 'seed': rec['seed'], 'idx': rec['idx'], 'check': rec.get('check'), 'run': run['name'], 'w': {'ctx': rec.get('ctx')}}
                            counts['tsan_reports_seen'] = counts.get('tsan_reports_seen', 0) + rec['stderr'].count('WARNING: ThreadSanitizer')
                            continue
                        kind, frame = frame_of(rec.get('stderr', ''))
                        hostile = (rec.get('ctx') or '').startswith('hostile file')
                        if hostile and rec['how'] == 'cpu' and not frame:
                            # a CRC-consistent hostile file may announce 2^56 samples of gap, which copy and repair walk
                            # faithfully: running into the CPU limit there does not tell a slow walk from a loop
                            inconclusive += 1
                            counts['hostile_file_cases_at_cpu_limit'] = counts.get('hostile_file_cases_at_cpu_limit', 0) + 1
                            continue
                        if frame:
                            key = 'abnormal|%s|%s' % (kind or rec['how'], frame)
                        else:
                            key = 'abnormal|%s|%s|%s' % (rec['how'], kind or '-', rec.get('api') or '-')
                        if hostile:
                            key = 'hostile-file|' + key
                        k = (prop, key)
                        violn[k] = violn.get(k, 0) + 1
                        if k not in viol:
                            viol[k] = {'p': prop, 'k': key, 'm': 'case terminated abnormally (%s) in %s: %s' % (rec['how'], rec.get('api') or '?', (rec.get('stderr') or '')[:1500]),
                                       'seed': rec['seed'], 'idx': rec['idx'], 'check': rec.get('check'), 'run': run['name'], 'w': {'ctx': rec.get('ctx')}}
                if not done:
                    harness_fail = 'worker did not finish: rc=%s cmd=%s' % (rc, ' '.join(cmd))
                out.close()
    finally:
        shutil.rmtree(scratch_root, ignore_errors=True)

    known = load_known()
    open_keys = {(k['property'], k['key']): k for k in known if k.get('status') == 'open'}
    new = []
    seen_known = []
    for k, rec in sorted(viol.items()):
        if k in open_keys:
            seen_known.append(k)
        else:
            new.append(k)
    if replay is None:
        shutil.rmtree(os.path.join(EVID, 'replay', prop), ignore_errors=True)
    os.makedirs(os.path.join(EVID, 'replay', prop), exist_ok=True)
    for k in seen_known:
        print('KNOWN-FINDING: property=%s %s [%s] (seen %d times)' % (prop, open_keys[k]['what'], k[1], violn[k]))
    for k in new:
        rec = viol[k]
        hid = hashlib.sha256(('%s|%s' % k).encode()).hexdigest()[:12]
        path = os.path.join(EVID, 'replay', prop, hid + '.json')
        with open(path, 'w') as f:
            json.dump({'property': prop, 'key': k[1], 'message': rec.get('m'), 'run': rec.get('run'), 'seed': rec.get('seed'), 'idx': rec.get('idx'), 'check': rec.get('check'),
                       'tier': tier, 'witness': rec.get('w'), 'occurrences': violn[k]}, f, indent=1)
        print('VIOLATION property=%s replay=%s' % (prop, path))
        print('  key: %s' % k[1])
        print('  %s' % (rec.get('m') or '')[:600])
    distinct = sum(1 for f, nt in feats.items() if nt)
    if not samples:
        samples = [{'note': 'no program sample recorded', 'features': list(feats)[:3]}]
    cov = {
        'evaluations': int(evaluations),
        'distinct_nontrivial': int(distinct),
        'distinct_feature_tuples': len(feats),
        'rule': RULES.get(prop, ''),
        'samples': samples,
        'observed': counts,
        'violation_keys': {k[1]: violn[k] for k in new},
        'known_findings_observed': {k[1]: violn[k] for k in seen_known},
        'inconclusive_cases': inconclusive,
        'abnormal_terminations': abnormal,
        'exhaustive': bool(EXHAUSTIVE.get(prop, False)),
        'runs': [{'mode': r['name'], 'harness': r['harness'], 'build': r['variant'], 'cases': r[tier]} for r in runs],
    }
    if notes:
        cov['notes'] = notes
    ev = {'property_id': prop, 'tier': tier, 'seed': int(seed), 'level': LEVELS[prop], 'coverage': cov,
          'assumptions': ASSUME.get(prop, []), 'wall_s': round(time.time() - t0, 2), 'violations': len(new)}
    if replay is None:
        with open(os.path.join(EVID, prop + '.json'), 'w') as f:
            json.dump(ev, f, indent=1)
    print('%s %s seed=%s: %d cases, %d distinct non-trivial, %d new violation keys, %d known, %d inconclusive, %.1fs' %
          (prop, tier, seed, evaluations, distinct, len(new), len(seen_known), inconclusive, time.time() - t0))
    if harness_fail:
        print('HARNESS-FAILURE: ' + harness_fail)
        return 2
    if evaluations and inconclusive > 0.02 * evaluations:
        print('HARNESS-FAILURE: %d of %d cases inconclusive' % (inconclusive, evaluations))
        return 2
    if evaluations == 0 or distinct < 2:
        print('HARNESS-FAILURE: the monitors observed nothing (evaluations=%d distinct=%d)' % (evaluations, distinct))
        return 2
    return 1 if new else 0


def main():
    if len(sys.argv) < 2 or sys.argv[1] not in CHECKS:
        print('usage: check.py <%s> [--tier quick|thorough] [--seed N] [--replay FILE]' % '|'.join(sorted(CHECKS)))
        return 2
    prop = sys.argv[1]
    args = sys.argv[2:]

    def opt(name, d):
        return args[args.index(name) + 1] if name in args else d
    tier = opt('--tier', os.environ.get('VERIF_TIER', 'quick'))
    seed = int(opt('--seed', os.environ.get('VERIF_SEED', '1')))
    jobs = int(opt('--jobs', str(JOBS)))
    replay = None
    if '--replay' in args:
        with open(opt('--replay', None)) as f:
            r = json.load(f)
        replay = {'run': r['run'], 'idx': r['idx']}
        seed = r['seed']
        tier = r.get('tier', tier)
    return run_check(prop, tier, seed, jobs, replay)


if __name__ == '__main__':
    sys.exit(main())
