/*
 * C04: corrupted bytes are detected, never returned as valid content.
 * A small closed file is generated (truth = submission model); fault families:
 *   a  every single-bit flip at every bit of the file (exhaustive); every third file is "deep" (a first
 *      signal long enough for statistics served from level-1 and level-2 summaries): there the
 *      single-bit flips cover every header, every non-DATA payload and four of the DATA payloads
 *   b  2- and 3-bit combinations inside one protected region (file header, a chunk header, a payload+CRC)
 *   c  bursts of 1..32 bits
 *   d  zeroed / 0xFF / random-overwritten ranges, several chunks at once, END chunk, file-header length
 *   e  one covered byte altered and the region's CRC recomputed with exactly one of its 32 bits wrong
 *      (every CRC bit position, every protected region): only a full-width CRC comparison rejects these
 * Each altered copy is opened in its own process; every reader result must be an error, the truth at
 * the requested positions, or a correct prefix of it (when the damage makes the file look unclosed).
 */
#define _GNU_SOURCE
#include "vcommon.h"
#include "model.h"
#include "gen.h"
#include "iolog.h"
#include "jlsdec.h"
#include "jls/writer.h"
#include "jls/reader.h"
#include "jls/ec.h"
#include "jls/time.h"
#include <stdlib.h>
#include <string.h>
#include <math.h>
#include <unistd.h>
#include <fcntl.h>

#define NSHARD 16

typedef struct { int thorough; int64_t n_b, n_c, n_d, n_e, n_f; } ctx_t;

typedef struct { uint64_t off, end; uint8_t kind; uint8_t tag; } region_t;   /* kind: 0 file header, 1 chunk header, 2 payload+pad+crc */

typedef struct {
    prog_t p; model_t m;
    uint8_t *file; size_t size;
    region_t *reg; size_t nreg;
    int levels;
    int deep;                      /* long first signal: statistics requests reach summary levels 1 and 2 */
    uint64_t *fo, *fc; size_t nf;  /* family a: focus byte ranges [fo[i], fo[i+1]) start at cumulative bit fc[i]; */
    uint64_t abits;                /* non-deep files: the whole file */
    int big;                       /* holds a user-data chunk and an annotation above 1 MiB: larger than a reader's initial chunk buffer */
    size_t bigreg[8]; size_t nbig; /* their payload regions */
    char feat[200];
} plan_t;

static int g_file_has_omission;
static void build_small(prog_t *p, rng_t *r, char *feat, size_t featn, int omission, int deep, int big) {
    prog_add_source(p, 1, "flip-src");
    static const char *ta[] = {"f32", "f64", "i16", "u32", "i24"};
    static const char *td[] = {"f32", "i16", "i24", "u16"};
    static const char *tb[] = {"u8", "u1", "u4", "i8", "i4"};
    const dtype_t *t1 = dtype_by_name(deep ? RNG_PICK(r, td) : RNG_PICK(r, ta)), *t2 = dtype_by_name(RNG_PICK(r, tb));
    struct jls_signal_def_s d1, d2, n1, n2;
    gen_def(r, &d1, 3, 1, t1, DEF_TINYLEVELS);
    d1.samples_per_data = deep ? 50 : 10; d1.entries_per_summary = deep ? 20 : 10; d1.summary_decimate_factor = 10;
    d1.annotation_decimate_factor = 2; d1.utc_decimate_factor = 2;
    d1.sample_id_offset = rng_chance(r, 1, 2) ? 0 : 1000;
    gen_def(r, &d2, 9, 1, t2, DEF_MINIMAL);
    d2.annotation_decimate_factor = 3; d2.utc_decimate_factor = 3;
    d2.sample_id_offset = 0;
    def_normalised(&d1, &n1); def_normalised(&d2, &n2);
    int s1 = prog_add_signal(p, &d1, "alpha", "V", PAT_WALK, rng_u64(r));
    p->sig[p->ops[s1].def].blk = n1.samples_per_data;
    int s2 = prog_add_signal(p, &d2, "beta", "", omission ? PAT_BLOCKCONST : PAT_WALK, rng_u64(r));
    p->sig[p->ops[s2].def].blk = n2.samples_per_data;
    /* signal 1: two summary levels; signal 2: a few blocks, one of them constant (omitted) */
    int64_t nA = def_level_span(&n1, 1) * 2 + rng_range(r, 1, n1.samples_per_data * 3);
    if (nA * t1->bits / 8 > 5000) nA = 5000 * 8 / t1->bits;
    /* deep: > 25 level-2 entries, so requests are served from level-1 and level-2 summaries, several
     * level-1 summary chunks and (with 10 entries per chunk) three level-2 chunks exist */
    if (deep) nA = 25 * (int64_t) n1.sample_decimate_factor * n1.summary_decimate_factor + rng_range(r, 20, 400);
    int64_t nB = (int64_t) n2.samples_per_data * rng_range(r, 3, 5) + rng_range(r, 0, 20);
    if (nB * t2->bits / 8 > 3000) nB = 3000 * 8 / t2->bits;
    int64_t pa = 0, pb = 0; int64_t fa = d1.sample_id_offset;
    int k = 0;
    while (pa < nA || pb < nB) {
        if (pa < nA) { int64_t c = rng_range(r, deep ? nA / 12 : 1, nA / 6 + 1); if (c > nA - pa) c = nA - pa; op_t *o = prog_add(p, OP_FSR); o->id = 3; o->sid = fa + pa; o->n = (uint32_t) c; o->vseed = rng_u64(r); pa += c; }
        if (pb < nB) { int64_t c = rng_range(r, 1, nB / 4 + 1); if (c > nB - pb) c = nB - pb; op_t *o = prog_add(p, OP_FSR); o->id = 9; o->sid = pb; o->n = (uint32_t) c; o->vseed = rng_u64(r); pb += c; }
        if (k < 9) { op_t *a = prog_add(p, OP_ANNO); a->id = (k & 1) ? 3 : 0; a->ts = (k & 1) ? fa + pa - 1 : k; a->y = 1.25f; a->atype = (uint8_t) (k & 3); a->stype = (uint8_t) (1 + k % 3); a->dsize = (uint32_t) rng_range(r, 1, 20); a->dseed = rng_u64(r); a->group = (uint8_t) k; }
        if (k < 6) { op_t *u = prog_add(p, OP_UTC); u->id = 3; u->sid = fa + pa - 1; u->utc = JLS_TIME_SECOND * 100 + pa * 1000; }
        if (big && k == 1) {
            /* one user-data chunk and one annotation that no reader has room for until it has grown its buffer */
            op_t *u = prog_add(p, OP_USER); u->meta = 0x077; u->stype = JLS_STORAGE_TYPE_BINARY; u->dsize = (uint32_t) ((1 << 20) + rng_range(r, 1, 1 << 20)); u->dseed = rng_u64(r);
            op_t *a = prog_add(p, OP_ANNO); a->id = 3; a->ts = fa + pa - 1; a->y = 2.5f; a->atype = 0; a->stype = rng_chance(r, 1, 2) ? JLS_STORAGE_TYPE_BINARY : JLS_STORAGE_TYPE_STRING;
            a->dsize = (uint32_t) ((1 << 20) + rng_range(r, 1, 1 << 19)); a->dseed = rng_u64(r); a->group = 77;
        }
        if (k == 2 || k == 5) { op_t *u = prog_add(p, OP_USER); u->meta = (uint16_t) (0x100 + k); u->stype = (uint8_t) (1 + k % 3); u->dsize = (uint32_t) rng_range(r, 1, 40); u->dseed = rng_u64(r); }
        ++k;
    }
    snprintf(feat, featn, "%s+%s|offset=%lld|constant-blocks=%d|deep=%d|big-chunks=%d", t1->name, t2->name, (long long) d1.sample_id_offset, omission, deep, big);
}

static int make_plan(plan_t *pl, rng_t *r, const char *path, int omission, int deep, int big) {
    memset(pl, 0, sizeof(*pl));
    pl->deep = deep; pl->big = big;
    prog_init(&pl->p);
    build_small(&pl->p, r, pl->feat, sizeof(pl->feat), omission, deep, big);
    model_init(&pl->m, &pl->p);
    exec_opts_t eo = {.kind = WR_SYNC, .stop_after = -1};
    if (exec_prog(&pl->p, &pl->m, path, &eo)) return -1;
    jd_t d;
    if (jd_load(&d, path)) return -1;
    jd_decode(&d);
    if (!d.closed || d.nerr_total) { jd_free(&d); return -2; }
    pl->file = malloc(d.size); memcpy(pl->file, d.buf, d.size); pl->size = d.size;
    pl->reg = calloc(2 * d.n + 2, sizeof(region_t));
    pl->reg[pl->nreg++] = (region_t) {0, 32, 0, 0};
    for (size_t i = 0; i < d.n; ++i) {
        jd_chunk_t *c = &d.ch[i];
        pl->reg[pl->nreg++] = (region_t) {c->off, c->off + 32, 1, c->tag};
        if (c->plen) { uint64_t dl = (((uint64_t) c->plen + 4) + 7) & ~7ULL; pl->reg[pl->nreg++] = (region_t) {c->off + 32, c->off + 32 + dl, 2, c->tag}; }
    }
    for (int s = 1; s < 256; ++s) for (int l = 1; l < JD_LEVELS; ++l) if (d.sig[s].summary[JD_TT_FSR][l].n && l > pl->levels) pl->levels = l;
    /* family a focus: everything, except that a deep file's FSR DATA payloads are represented by the first three and the last one */
    pl->fo = calloc(2 * pl->nreg + 64, sizeof(uint64_t)); pl->fc = calloc(2 * pl->nreg + 64, sizeof(uint64_t));
    {
        size_t ndata = 0, seen = 0;
        for (size_t i = 0; i < pl->nreg; ++i) if (pl->reg[i].kind == 2 && pl->reg[i].tag == 0x22) ndata++;
        uint64_t cum = 0;
        for (size_t i = 0; i < pl->nreg; ++i) {
            int take = 1;
            if (deep && pl->reg[i].kind == 2 && pl->reg[i].tag == 0x22) { take = seen < 3 || seen + 1 == ndata; seen++; }
            if (big) {
                /* every fault on this file costs a copy, a write and a read of several MiB: single-bit flips only where the big chunks are
                 * (their headers and slices of their payloads) and in the file header; the other files cover the small chunks */
                int bigpay = pl->reg[i].kind == 2 && pl->reg[i].end - pl->reg[i].off > 65536;
                int bighdr = pl->reg[i].kind == 1 && i + 1 < pl->nreg && pl->reg[i + 1].kind == 2 && pl->reg[i + 1].end - pl->reg[i + 1].off > 65536;
                take = bigpay || bighdr || pl->reg[i].kind == 0;
            }
            if (!take) continue;
            if (pl->reg[i].kind == 2 && pl->reg[i].end - pl->reg[i].off > 65536) {
                /* a payload above 1 MiB: single-bit flips in its first 24 bytes, 16 bytes in the middle and the last 16 bytes (pad and CRC included) */
                if (pl->nbig < 8) pl->bigreg[pl->nbig++] = i;
                uint64_t a = pl->reg[i].off, e = pl->reg[i].end, m = a + ((e - a) / 2 & ~7ULL);
                uint64_t sl[3][2] = {{a, a + 24}, {m, m + 16}, {e - 16, e}};
                for (int q = 0; q < 3; ++q) { pl->fo[2 * pl->nf] = sl[q][0]; pl->fo[2 * pl->nf + 1] = sl[q][1]; pl->fc[pl->nf] = cum; cum += (sl[q][1] - sl[q][0]) * 8; pl->nf++; }
                continue;
            }
            pl->fo[2 * pl->nf] = pl->reg[i].off; pl->fo[2 * pl->nf + 1] = pl->reg[i].end; pl->fc[pl->nf] = cum;
            cum += (pl->reg[i].end - pl->reg[i].off) * 8; pl->nf++;
        }
        pl->abits = cum;
    }
    g_file_has_omission = 0;
    for (int s = 1; s < 256; ++s) {
        const jd_list_t *il = &d.sig[s].index[JD_TT_FSR][1];
        for (size_t q = 0; q < il->n; ++q) {
            const jd_chunk_t *ic = &d.ch[il->idx[q]];
            if (ic->plen < 16) continue;
            uint32_t cnt; memcpy(&cnt, ic->payload + 8, 4);
            for (uint32_t e = 0; e < cnt && 16 + 8 * (uint64_t) (e + 1) <= ic->plen; ++e) { uint64_t off; memcpy(&off, ic->payload + 16 + 8 * e, 8); if (!off) g_file_has_omission = 1; }
        }
    }
    jd_free(&d);
    return 0;
}

static void plan_free(plan_t *pl) { free(pl->file); free(pl->reg); free(pl->fo); free(pl->fc); model_free(&pl->m); prog_free(&pl->p); }

static const region_t *region_of(const plan_t *pl, uint64_t off) {
    size_t lo = 0, hi = pl->nreg;
    while (lo < hi) { size_t mid = (lo + hi) / 2; if (off < pl->reg[mid].off) hi = mid; else if (off >= pl->reg[mid].end) lo = mid + 1; else return &pl->reg[mid]; }
    return NULL;
}

static const char *tagname(uint8_t tag) {
    static char b[4][24]; static int k;
    char *o = b[k++ & 3];
    if (tag == 1) return "SOURCE_DEF";
    if (tag == 2) return "SIGNAL_DEF";
    if (tag == 0x40) return "USER_DATA";
    if (tag == 0xff) return "END";
    static const char *tt[] = {"FSR", "VSR", "ANNO", "UTC"};
    static const char *ck[] = {"DEF", "HEAD", "DATA", "INDEX", "SUMMARY", "?5", "?6", "?7"};
    snprintf(o, 24, "%s_%s", tt[(tag >> 3) & 3], ck[tag & 7]);
    return o;
}

/* fault description: a list of byte edits */
typedef struct { char family; int nedit; struct { uint64_t off; uint32_t len; uint8_t mode; uint8_t val; uint64_t seed; } e[8]; char desc[160]; } fault_t;
/* mode: 0 xor val (single byte), 1 set range to val, 2 random range */

static void apply_fault(uint8_t *buf, size_t size, const fault_t *f) {
    for (int i = 0; i < f->nedit; ++i) {
        for (uint32_t k = 0; k < f->e[i].len; ++k) {
            uint64_t o = f->e[i].off + k;
            if (o >= size) break;
            if (f->e[i].mode == 0) buf[o] ^= f->e[i].val;
            else if (f->e[i].mode == 1) buf[o] = f->e[i].val;
            else buf[o] = (uint8_t) (vmix(f->e[i].seed, k) >> 13);
        }
    }
}

static void xor_bit(fault_t *f, uint64_t bit) { f->e[f->nedit].off = bit / 8; f->e[f->nedit].len = 1; f->e[f->nedit].mode = 0; f->e[f->nedit].val = (uint8_t) (1u << (bit % 8)); f->nedit++; }

/* fault number -> fault; returns 0 if out of range */
static int make_fault(const plan_t *pl, const ctx_t *c, uint64_t n, fault_t *f) {
    memset(f, 0, sizeof(*f));
    uint64_t nbits = (uint64_t) pl->size * 8;
    rng_t r; rng_seed(&r, vmix(g_seed ^ 0xF11F, n));
    if (n < pl->abits) {
        size_t lo = 0, hi = pl->nf;
        while (hi - lo > 1) { size_t mid = (lo + hi) / 2; if (pl->fc[mid] <= n) lo = mid; else hi = mid; }
        n = pl->fo[2 * lo] * 8 + (n - pl->fc[lo]);
    }
    else n = n - pl->abits + nbits;
    if (n < nbits) { f->family = 'a'; xor_bit(f, n); snprintf(f->desc, sizeof(f->desc), "flip bit %llu (byte %llu)", (unsigned long long) n, (unsigned long long) (n / 8)); return 1; }
    n -= nbits;
    if ((int64_t) n < c->n_b) {
        f->family = 'b';
        const region_t *rg = &pl->reg[rng_below(&r, pl->nreg)];
        if ((n % 4) == 0) rg = &pl->reg[0];
        if (pl->nbig && (n % 4) == 1) rg = &pl->reg[pl->bigreg[rng_below(&r, pl->nbig)]];
        uint64_t rb = (rg->end - rg->off) * 8;
        int k = (n & 1) ? 3 : 2;
        uint64_t bits[3];
        for (int i = 0; i < k; ++i) { int dup; do { dup = 0; bits[i] = rng_below(&r, rb); for (int j = 0; j < i; ++j) if (bits[j] == bits[i]) dup = 1; } while (dup); }
        /* XOR edits on the same byte must be merged */
        for (int i = 0; i < k; ++i) {
            uint64_t byte = rg->off + bits[i] / 8; int merged = 0;
            for (int j = 0; j < f->nedit; ++j) if (f->e[j].off == byte) { f->e[j].val ^= (uint8_t) (1u << (bits[i] % 8)); merged = 1; }
            if (!merged) xor_bit(f, rg->off * 8 + bits[i]);
        }
        snprintf(f->desc, sizeof(f->desc), "%d bit flips inside one %s region of %s at %llu", k, rg->kind == 0 ? "file-header" : rg->kind == 1 ? "chunk-header" : "payload", rg->kind ? tagname(rg->tag) : "-", (unsigned long long) rg->off);
        return 1;
    }
    n -= (uint64_t) c->n_b;
    if ((int64_t) n < c->n_c) {
        f->family = 'c';
        uint32_t blen = 1 + (uint32_t) (n % 32);
        uint64_t start = rng_below(&r, nbits - blen);
        if ((n % 3) == 0) { const region_t *rg = &pl->reg[rng_below(&r, pl->nreg)]; if (rg->kind == 1) start = rg->off * 8 + rng_below(&r, 32 * 8 - blen + 1); }
        if (pl->nbig && (n % 3) == 1) { const region_t *rg = &pl->reg[pl->bigreg[rng_below(&r, pl->nbig)]]; start = rg->off * 8 + rng_below(&r, (rg->end - rg->off) * 8 - blen); }
        /* a burst: first and last bit flipped, the ones between random */
        uint8_t tmp[8] = {0};
        for (uint32_t i = 0; i < blen; ++i) { int fl = (i == 0 || i == blen - 1) ? 1 : (int) rng_below(&r, 2); if (fl) tmp[(start % 8 + i) / 8] |= (uint8_t) (1u << ((start % 8 + i) % 8)); }
        for (int i = 0; i < 5; ++i) if (tmp[i]) { f->e[f->nedit].off = start / 8 + (uint64_t) i; f->e[f->nedit].len = 1; f->e[f->nedit].mode = 0; f->e[f->nedit].val = tmp[i]; f->nedit++; if (f->nedit == 4) break; }
        snprintf(f->desc, sizeof(f->desc), "burst of %u bits at bit %llu", blen, (unsigned long long) start);
        return 1;
    }
    n -= (uint64_t) c->n_c;
    if ((int64_t) n < c->n_d) {
        f->family = 'd';
        int kind = (int) (n % 8);
        if (kind == 6) {          /* file-header length field */
            f->e[0].off = 16 + rng_below(&r, 8); f->e[0].len = 1; f->e[0].mode = 1; f->e[0].val = (uint8_t) rng_below(&r, 256); f->nedit = 1;
            snprintf(f->desc, sizeof(f->desc), "file-header length byte overwritten");
        } else if (kind == 7) {   /* END chunk */
            f->e[0].off = pl->size - 32 + rng_below(&r, 32); f->e[0].len = (uint32_t) rng_range(&r, 1, 8); f->e[0].mode = 2; f->e[0].seed = rng_u64(&r); f->nedit = 1;
            snprintf(f->desc, sizeof(f->desc), "END chunk bytes overwritten");
        } else {
            int ne = kind == 5 ? (int) rng_range(&r, 2, 3) : 1;
            for (int i = 0; i < ne; ++i) {
                f->e[i].off = rng_below(&r, pl->size); f->e[i].len = (uint32_t) (kind < 3 ? rng_range(&r, 1, 16) : rng_range(&r, 17, 400));
                f->e[i].mode = (uint8_t) (kind % 3 == 0 ? 1 : kind % 3 == 1 ? 1 : 2); f->e[i].val = (uint8_t) (kind % 3 == 0 ? 0 : 0xff); f->e[i].seed = rng_u64(&r);
            }
            f->nedit = ne;
            snprintf(f->desc, sizeof(f->desc), "%d range(s) overwritten (%s), first at %llu len %u", ne, f->e[0].mode == 2 ? "random" : f->e[0].val ? "0xFF" : "zero", (unsigned long long) f->e[0].off, f->e[0].len);
        }
        return 1;
    }
    n -= (uint64_t) c->n_d;
    if ((int64_t) n < c->n_e) {
        /* e: a consistent alteration with a near-miss CRC: one covered byte is changed, the CRC is recomputed for the
         * altered bytes and then ONE of its 32 bits is flipped.  A reader that compares the whole CRC rejects it. */
        f->family = 'e';
        const region_t *rg = &pl->reg[(n / 32) % pl->nreg];
        if ((n / 32 / pl->nreg) % 2) rg = &pl->reg[rng_below(&r, pl->nreg)];
        if (pl->nbig && (n % 5) == 0) rg = &pl->reg[pl->bigreg[rng_below(&r, pl->nbig)]];
        uint64_t cov, crc_at;
        if (rg->kind == 2) { uint32_t plen; memcpy(&plen, pl->file + rg->off - 32 + 20, 4); cov = plen; crc_at = rg->end - 4; }
        else { cov = 28; crc_at = rg->off + 28; }
        uint8_t *tmp = malloc(cov);
        memcpy(tmp, pl->file + rg->off, cov);
        uint64_t pos = rng_below(&r, cov);
        uint8_t x = (uint8_t) (1 + rng_below(&r, 255));
        tmp[pos] ^= x;
        uint32_t crc = jd_crc32c(tmp, cov) ^ (1u << (n % 32));
        free(tmp);
        f->e[0].off = rg->off + pos; f->e[0].len = 1; f->e[0].mode = 0; f->e[0].val = x;
        for (int i = 0; i < 4; ++i) { f->e[1 + i].off = crc_at + (uint64_t) i; f->e[1 + i].len = 1; f->e[1 + i].mode = 1; f->e[1 + i].val = (uint8_t) (crc >> (8 * i)); }
        f->nedit = 5;
        snprintf(f->desc, sizeof(f->desc), "byte %llu of a %s %s altered, CRC recomputed with bit %u wrong", (unsigned long long) (rg->off + pos),
                 rg->kind == 0 ? "file-header" : tagname(rg->tag), rg->kind == 2 ? "payload" : "header", (unsigned) (n % 32));
        return 1;
    }
    n -= (uint64_t) c->n_e;
    if ((int64_t) n < c->n_f) {
        /* f: one burst of at most 32 bits, confined to the crc32 field of a chunk header that links to a next item: the
         * field is replaced by the CRC the header has with item_next = 0, whole or only its 1-3 high bytes - the bytes a
         * writer leaves behind when it stops inside a link update.  In an unclosed file that is a link to complete; in
         * this properly closed file it is damage, and accepting it would end the list early without an error. */
        f->family = 'f';
        size_t hdrs = 0;
        for (size_t i = 0; i < pl->nreg; ++i) if (pl->reg[i].kind == 1) { uint64_t nx; memcpy(&nx, pl->file + pl->reg[i].off, 8); if (nx) hdrs++; }
        if (!hdrs) return 0;
        size_t pick = (size_t) ((n / 4) % hdrs), seen = 0; const region_t *rg = NULL;
        for (size_t i = 0; i < pl->nreg && !rg; ++i) if (pl->reg[i].kind == 1) { uint64_t nx; memcpy(&nx, pl->file + pl->reg[i].off, 8); if (nx && seen++ == pick) rg = &pl->reg[i]; }
        uint8_t h[32]; memcpy(h, pl->file + rg->off, 32);
        uint32_t crc_new; memcpy(&crc_new, h + 28, 4);
        memset(h, 0, 8);
        uint32_t crc_old = jd_crc32c(h, 28);
        unsigned k = (unsigned) (n % 4);                       /* k low bytes already rewritten with the new CRC */
        uint32_t mask = k ? (1u << (8 * k)) - 1 : 0;
        uint32_t v = (crc_new & mask) | (crc_old & ~mask);
        for (int i = 0; i < 4; ++i) { f->e[i].off = rg->off + 28 + (uint64_t) i; f->e[i].len = 1; f->e[i].mode = 1; f->e[i].val = (uint8_t) (v >> (8 * i)); }
        f->nedit = 4;
        snprintf(f->desc, sizeof(f->desc), "crc32 of the %s header at %llu replaced by the CRC for item_next = 0 (%u low bytes kept)", tagname(rg->tag), (unsigned long long) rg->off, k);
        return 1;
    }
    return 0;
}

typedef struct { plan_t *pl; const ctx_t *c; uint64_t prog; } fctx_t;

static int write_file(const char *path, const uint8_t *p, size_t n) {
    int fd = open(path, O_WRONLY | O_CREAT | O_TRUNC, 0600);
    if (fd < 0) return -1;
    size_t done = 0;
    while (done < n) { ssize_t w = write(fd, p + done, n - done); if (w <= 0) break; done += (size_t) w; }
    close(fd);
    return done == n ? 0 : -1;
}

static void fault_case(uint64_t fi, void *vctx) {
    fctx_t *fc = vctx;
    plan_t *pl = fc->pl;
    fault_t f;
    if (!make_fault(pl, fc->c, fi, &f)) return;
    static char chk[64];
    snprintf(chk, sizeof(chk), "flip:fault=%llu", (unsigned long long) fi);
    g_check = chk;
    uint8_t *buf = malloc(pl->size);
    memcpy(buf, pl->file, pl->size);
    apply_fault(buf, pl->size, &f);
    char fam[2] = {f.family, 0};
    if (!memcmp(buf, pl->file, pl->size)) { free(buf); v_count("C04", "faults_without_effect", 1); return; }
    const region_t *rg = region_of(pl, f.e[0].off);
    const char *rk = !rg ? "none" : rg->kind == 0 ? "file-header" : rg->kind == 1 ? "chunk-header" : "payload";
    /* where in the region: for payload regions, pad bytes are not covered by any CRC */
    int in_pad = 0;
    if (rg && rg->kind == 2 && f.nedit == 1 && f.e[0].len == 1) {
        /* payload length is in the chunk header just before */
        uint32_t plen; memcpy(&plen, pl->file + rg->off - 32 + 20, 4);
        if (f.e[0].off >= rg->off + plen && f.e[0].off < rg->end - 4) in_pad = 1;
    }
    const char *path = v_path("flip.jls");
    if (write_file(path, buf, pl->size)) { free(buf); return; }
    char kind[96], wj[400];
    snprintf(kind, sizeof(kind), "fault-%s|%s|%s", fam, rk, rg && rg->kind ? tagname(rg->tag) : "-");
    snprintf(wj, sizeof(wj), "{\"file\":%llu,\"fault\":%llu,\"family\":\"%s\",\"what\":\"%s\",\"region\":\"%s\",\"tag\":\"%s\",\"file_size\":%zu}", (unsigned long long) fc->prog,
             (unsigned long long) fi, fam, f.desc, rk, rg && rg->kind ? tagname(rg->tag) : "-", pl->size);
    v_ctx("file %llu fault %llu %s", (unsigned long long) fc->prog, (unsigned long long) fi, f.desc);
    v_count("C04", f.family == 'a' ? "faults_single_bit" : f.family == 'b' ? "faults_2_3_bits" : f.family == 'c' ? "faults_burst" : f.family == 'e' ? "faults_near_miss_crc" : f.family == 'f' ? "faults_crc_of_unlinked_header" : "faults_overwrite", 1);
    if (in_pad) v_count("C04", "faults_in_unprotected_pad_bytes", 1);
    if (f.family == 'd') {
        /* a random overwrite could in principle produce a valid CRC (2^-32): such a case is inconclusive, not a violation */
        jd_t d; int crc_bad = 0;
        if (!jd_load_mem(&d, buf, pl->size)) {
            jd_decode(&d);
            for (int i = 0; i < d.nerr; ++i) if (!strcmp(d.err[i].rule, "R2.hdrcrc") || !strcmp(d.err[i].rule, "R2.paycrc") || !strcmp(d.err[i].rule, "R1.filehdr") || !strcmp(d.err[i].rule, "R2.trunc")) crc_bad = 1;
            jd_free(&d);
        }
        if (!crc_bad) { v_count("C04", "inconclusive_crc_valid_after_overwrite", 1); free(buf); unlink(path); return; }
    }
    free(buf);
    jls_quiet();
    rng_t r; rng_seed(&r, vmix(g_seed, fi));
    struct jls_rd_s *rd = NULL;
    v_api("jls_rd_open");
    int32_t rc = jls_rd_open(&rd, path);
    v_api("");
    if (rc) { v_count("C04", "outcome_open_error", 1); v_feature("C04", 1, "%s|open-error", kind); unlink(path); return; }
    int64_t lengths[256];
    v_count("C04", "outcome_opened", 1);
    int before = v_violation_count();
    (void) wj;
    /* did the open repair the (apparently unclosed) file?  Repair of files with omitted blocks is a known finding of C03. */
    int repaired = 0;
    { jd_t now; if (!jd_load(&now, path)) { uint8_t *alt = malloc(pl->size); memcpy(alt, pl->file, pl->size); apply_fault(alt, pl->size, &f); repaired = now.size != pl->size || memcmp(now.buf, alt, pl->size); free(alt); jd_free(&now); } }
    if (repaired) v_count("C04", "opens_that_repaired", 1);
    prefix_complete_on_success(!repaired);
    verify_prefix_ex(rd, &pl->m, "C04", &r, path, lengths, (repaired && g_file_has_omission) ? "omitted-blocks" : kind, 1);
    prefix_complete_on_success(0);
    int full = 1;
    for (int s = 1; s < 256; ++s) if (pl->m.sig[s].defined && pl->m.sig[s].fsr && lengths[s] != msig_length(&pl->m.sig[s])) full = 0;
    v_count("C04", full ? "outcome_returned_truth_or_errors" : "outcome_returned_prefix", 1);
    v_feature("C04", 1, "%s|%s", kind, full ? "opened-full" : "opened-prefix");
    if (v_violation_count() != before) v_note("C04", "%s", wj);
    v_api("jls_rd_close");
    jls_rd_close(rd);
    v_api("");
    unlink(path);
}

static void run_case(uint64_t idx, void *vctx) {
    ctx_t *c = vctx;
    uint64_t prog = idx / NSHARD, shard = idx % NSHARD;
    rng_t r; rng_seed(&r, vmix(g_seed, prog ^ 0xC04C04));
    jls_quiet();
    plan_t pl;
    const char *path = v_path("flip-orig.jls");
    int big = (prog % 4) == 2;
    int prc = make_plan(&pl, &r, path, (int) (prog & 1), (prog % 3) == 1, big);
    unlink(path);
    if (prc) {
        if (shard == 0) {
            v_note("C04", "file %llu could not be generated cleanly (rc %d): skipped", (unsigned long long) prog, prc);
            /* the premise of the property is a properly closed file whose checksums protect its bytes: a file the library has just written
             * and closed that the independent decoder (own CRC-32C) rejects means the protection itself is broken */
            if (prc == -2) v_violation("C04", "setup|closed-file-rejected-by-independent-decoder", NULL, "file %llu, written and closed by the library, does not decode cleanly with the independent decoder", (unsigned long long) prog);
        }
        return;
    }
    ctx_t cb = *c;
    if (big) { cb.n_b /= 8; cb.n_c /= 8; cb.n_d /= 8; cb.n_e /= 8; cb.n_f /= 8; c = &cb; }   /* each fault copies, writes and reads back several MiB */
    uint64_t total = pl.abits + (uint64_t) (c->n_b + c->n_c + c->n_d + c->n_e + c->n_f);
    if (shard == 0) {
        v_count("C04", "files", 1);
        v_count("C04", "file_bytes", (int64_t) pl.size);
        v_count("C04", "protected_regions", (int64_t) pl.nreg);
        char sj[300]; snprintf(sj, sizeof(sj), "{\"file\":%llu,\"signals\":\"%s\",\"bytes\":%zu,\"regions\":%zu,\"summary_levels\":%d,\"faults\":%llu}", (unsigned long long) prog, pl.feat, pl.size, pl.nreg, pl.levels, (unsigned long long) total);
        v_sample("C04", sj);
    }
    fctx_t fc = {.pl = &pl, .c = c, .prog = prog};
    run_opts_t ro = {.cpu_s = 10, .wall_s = 30, .no_fork = 0};
    if (getenv("VERIF_FAULT")) {
        uint64_t fi = strtoull(getenv("VERIF_FAULT"), NULL, 0);
        fault_t f; make_fault(&pl, c, fi, &f);
        uint8_t *buf = malloc(pl.size); memcpy(buf, pl.file, pl.size); apply_fault(buf, pl.size, &f);
        write_file(v_path("dbg-orig.jls"), pl.file, pl.size); write_file(v_path("dbg-fault.jls"), buf, pl.size);
        fprintf(stderr, "fault %llu: %s\n", (unsigned long long) fi, f.desc);
        free(buf);
        fault_case(fi, &fc);
        v_count_flush();
        plan_free(&pl);
        return;
    }
    uint64_t count = (total + NSHARD - 1 - shard) / NSHARD;
    v_count_flush();
    g_outer_case = idx; g_nested = 1;
    v_run_cases(fault_case, &fc, shard, count, NSHARD, &ro);
    g_nested = 0;
    g_case = idx;
    plan_free(&pl);
}

int main(int argc, char **argv) {
    v_init(argc, argv);
    ctx_t c = {.thorough = (int) v_arg_i(argc, argv, "--thorough", 0)};
    c.n_b = v_arg_i(argc, argv, "--nb", c.thorough ? 60000 : 6000);
    c.n_c = v_arg_i(argc, argv, "--nc", c.thorough ? 60000 : 6000);
    c.n_d = v_arg_i(argc, argv, "--nd", c.thorough ? 20000 : 2000);
    c.n_e = v_arg_i(argc, argv, "--ne", c.thorough ? 64000 : 9600);
    c.n_f = v_arg_i(argc, argv, "--nf", c.thorough ? 8000 : 1600);
    g_check = "flip";
    run_opts_t ro = {.cpu_s = 1200, .wall_s = 3600, .no_fork = v_has_arg(argc, argv, "--no-fork")};
    uint64_t first = (uint64_t) v_arg_i(argc, argv, "--first", 0), count = (uint64_t) v_arg_i(argc, argv, "--count", NSHARD), stride = (uint64_t) v_arg_i(argc, argv, "--stride", 1);
    return v_run_cases(run_case, &c, first, count, stride, &ro) ? 2 : 0;
}
