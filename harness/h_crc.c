/*
 * C18: CRC-32C of every length 0..4096 x every start alignment 0..7 x structured and random
 * contents, hardware path (jls_crc32c) and table path (jls_crc32c_sw, the same source built with
 * JLS_OPTIMIZE_CRC_DISABLE) against a bit-serial reference; header fast path; static tables
 * against tables generated from the polynomial.
 */
#define _GNU_SOURCE
#include "vcommon.h"
#include "jlsdec.h"
#include <stdlib.h>
#include <string.h>

struct jls_chunk_header_s;
uint32_t jls_crc32c(uint8_t const *data, uint32_t length);
uint32_t jls_crc32c_hdr(const struct jls_chunk_header_s *hdr);
uint32_t jls_crc32c_sw(uint8_t const *data, uint32_t length);
uint32_t jls_crc32c_hdr_sw(const struct jls_chunk_header_s *hdr);

/* the table source compiled into this translation unit, to reach its static tables */
#define jls_crc32c tbl_unit_crc32c
#define jls_crc32c_hdr tbl_unit_crc32c_hdr
#include "crc32c_sw.c"
#undef jls_crc32c
#undef jls_crc32c_hdr

typedef struct { int thorough; } ctx_t;

static void fill(uint8_t *p, size_t n, int pattern, uint64_t seed) {
    for (size_t i = 0; i < n; ++i) {
        switch (pattern) {
            case 0: p[i] = 0; break;
            case 1: p[i] = 0xff; break;
            case 2: p[i] = (uint8_t) i; break;
            default: p[i] = (uint8_t) (vmix(seed, i / 8) >> (8 * (i % 8))); break;
        }
    }
}

static void check_one(const uint8_t *p, uint32_t len, int align, int pattern) {
    uint32_t ref = jd_crc32c_bitwise(p, len);
    uint32_t hw = jls_crc32c(p, len);
    uint32_t sw = jls_crc32c_sw(p, len);
    char key[96], wj[128];
    snprintf(wj, sizeof(wj), "{\"length\":%u,\"align\":%d,\"pattern\":%d}", len, align, pattern);
    if (hw != ref) {
        snprintf(key, sizeof(key), "hw-mismatch|len%%8=%u|align=%d|%s", len % 8, align, len < 8 ? "short" : "long");
        v_violation("C18", key, wj, "jls_crc32c (hardware path) = 0x%08x, bit-serial reference = 0x%08x", hw, ref);
    }
    if (sw != ref) {
        snprintf(key, sizeof(key), "sw-mismatch|len%%8=%u|align=%d|%s", len % 8, align, len < 8 ? "short" : "long");
        v_violation("C18", key, wj, "jls_crc32c (table path) = 0x%08x, bit-serial reference = 0x%08x", sw, ref);
    }
}

static void case_lengths(uint64_t idx, ctx_t *c) {
    (void) c;
    /* idx selects a slice of lengths: 64 slices cover 0..4096 */
    uint32_t lo = (uint32_t) (idx * 65), hi = lo + 65;
    if (hi > 4097) hi = 4097;
    uint8_t *base = NULL;
    if (posix_memalign((void **) &base, 64, 4096 + 64)) return;
    int64_t n = 0;
    for (uint32_t len = lo; len < hi; ++len) {
        for (int align = 0; align < 8; ++align) {
            for (int pattern = 0; pattern < 7; ++pattern) {
                fill(base + align, len, pattern, vmix(g_seed, ((uint64_t) len << 8) | (uint64_t) (align * 8 + pattern)));
                check_one(base + align, len, align, pattern);
                ++n;
            }
            v_feature("C18", 1, "len%%8=%u|lenclass=%s|align=%d", len % 8, len == 0 ? "0" : len < 8 ? "<8" : len < 64 ? "<64" : len < 1024 ? "<1k" : "<=4k", align);
        }
    }
    v_count("C18", "length_alignment_content_triples", n);
    free(base);
}

static void case_tables(void) {
    const uint32_t *tabs[8] = {crc_tableil8_o32, crc_tableil8_o40, crc_tableil8_o48, crc_tableil8_o56, crc_tableil8_o64, crc_tableil8_o72, crc_tableil8_o80, crc_tableil8_o88};
    uint32_t gen[8][256];
    for (uint32_t i = 0; i < 256; ++i) {
        uint32_t x = i;
        for (int j = 0; j < 8; ++j) x = (x & 1) ? (x >> 1) ^ 0x82F63B78u : (x >> 1);
        gen[0][i] = x;
    }
    for (uint32_t i = 0; i < 256; ++i) {
        uint32_t cc = gen[0][i];
        for (int j = 1; j < 8; ++j) { cc = gen[0][cc & 0xff] ^ (cc >> 8); gen[j][i] = cc; }
    }
    int64_t n = 0;
    for (int t = 0; t < 8; ++t) for (int i = 0; i < 256; ++i) {
        ++n;
        if (tabs[t][i] != gen[t][i]) {
            char key[64], wj[96];
            snprintf(key, sizeof(key), "table-entry|table=%d", t);
            snprintf(wj, sizeof(wj), "{\"table\":%d,\"index\":%d}", t, i);
            v_violation("C18", key, wj, "table %d entry %d is 0x%08x, polynomial gives 0x%08x", t, i, tabs[t][i], gen[t][i]);
            break;
        }
    }
    v_count("C18", "table_entries_checked", n);
    v_feature("C18", 1, "tables");
    /* known answer anchors the reference itself */
    if (jd_crc32c_bitwise((const uint8_t *) "123456789", 9) != 0xE3069283u || jd_crc32c((const uint8_t *) "123456789", 9) != 0xE3069283u)
        v_violation("C18", "reference-self-test", NULL, "reference CRC does not reproduce the CRC-32C check value");
    if (jls_crc32c((const uint8_t *) "123456789", 9) != 0xE3069283u) v_violation("C18", "known-answer|hw", NULL, "jls_crc32c(\"123456789\") != 0xE3069283");
    if (jls_crc32c_sw((const uint8_t *) "123456789", 9) != 0xE3069283u) v_violation("C18", "known-answer|sw", NULL, "table jls_crc32c(\"123456789\") != 0xE3069283");
    v_count("C18", "known_answers", 3);
}

static void case_headers(uint64_t idx, int count) {
    uint64_t buf[4];
    rng_t r; rng_seed(&r, vmix(g_seed, 0xC18000 + idx));
    for (int k = 0; k < count; ++k) {
        int mode = (int) rng_below(&r, 4);
        for (int i = 0; i < 4; ++i) buf[i] = mode == 0 ? 0 : mode == 1 ? ~0ULL : rng_u64(&r);
        if (mode == 3) { buf[0] = rng_below(&r, 1 << 20); buf[1] = rng_below(&r, 1 << 20); }
        uint32_t ref = jd_crc32c_bitwise((const uint8_t *) buf, 28);
        uint32_t gen = jls_crc32c((const uint8_t *) buf, 28);
        uint32_t h1 = jls_crc32c_hdr((const struct jls_chunk_header_s *) buf);
        uint32_t h2 = jls_crc32c_hdr_sw((const struct jls_chunk_header_s *) buf);
        if (h1 != ref || h1 != gen) v_violation("C18", "hdr-mismatch|hw", NULL, "jls_crc32c_hdr = 0x%08x, general function over 28 bytes = 0x%08x, reference 0x%08x", h1, gen, ref);
        if (h2 != ref) v_violation("C18", "hdr-mismatch|sw", NULL, "table jls_crc32c_hdr = 0x%08x, reference 0x%08x", h2, ref);
    }
    v_count("C18", "headers_checked", count);
    v_feature("C18", 1, "headers|slice=%d", (int) (idx % 4));
}

static void case_big(uint64_t idx) {
    rng_t r; rng_seed(&r, vmix(g_seed, 0xB16000 + idx));
    size_t n = (size_t) rng_range(&r, 1 << 20, 16 << 20);
    int align = (int) rng_below(&r, 8);
    uint8_t *base = NULL;
    if (posix_memalign((void **) &base, 64, n + 64)) return;
    fill(base + align, n, 3, rng_u64(&r));
    /* reference over a large buffer: table-driven reference (itself anchored bit-serially on the first 4 KiB) */
    uint32_t ref = jd_crc32c(base + align, n);
    if (jd_crc32c(base + align, 4096) != jd_crc32c_bitwise(base + align, 4096)) v_violation("C18", "reference-self-test", NULL, "table reference disagrees with bit-serial reference");
    uint32_t hw = jls_crc32c(base + align, (uint32_t) n), sw = jls_crc32c_sw(base + align, (uint32_t) n);
    char wj[96]; snprintf(wj, sizeof(wj), "{\"length\":%zu,\"align\":%d}", n, align);
    if (hw != ref) v_violation("C18", "hw-mismatch|large", wj, "jls_crc32c over %zu bytes = 0x%08x, reference 0x%08x", n, hw, ref);
    if (sw != ref) v_violation("C18", "sw-mismatch|large", wj, "table jls_crc32c over %zu bytes = 0x%08x, reference 0x%08x", n, sw, ref);
    v_count("C18", "large_buffers", 1);
    v_feature("C18", 1, "large|align=%d", align);
    free(base);
}

/* medium and long buffers at every start offset within a cache line: code paths that are only taken from some length on
 * (unrolled or prefetching loops) and only for some alignments of the start */
static const uint32_t MID_LEN[12] = {4097, 8192, 16384 + 5, 32768, 65535, 65536, 65537, 65536 + 64, 100003, 131072, 262144 + 9, 1048576 + 3};
static void case_mid(uint64_t k) {
    rng_t r; rng_seed(&r, vmix(g_seed, 0xC18000 + k));
    uint32_t n = MID_LEN[k % 12];
    uint8_t *base = NULL;
    if (posix_memalign((void **) &base, 4096, (size_t) n + 128)) return;
    for (int align = 0; align < 64; ++align) {
        fill(base + align, n, 3, rng_u64(&r));
        uint32_t ref = jd_crc32c(base + align, n);
        if (align == 0 && jd_crc32c(base, 4096) != jd_crc32c_bitwise(base, 4096)) v_violation("C18", "reference-self-test", NULL, "table reference disagrees with bit-serial reference");
        uint32_t hw = jls_crc32c(base + align, n), sw = jls_crc32c_sw(base + align, n);
        char key[64], wj[96]; snprintf(wj, sizeof(wj), "{\"length\":%u,\"align\":%d}", n, align);
        if (hw != ref) { snprintf(key, sizeof(key), "hw-mismatch|mid|%s|align%%8=%d", n < 65536 ? "<64K" : ">=64K", align % 8); v_violation("C18", key, wj, "jls_crc32c over %u bytes at cache-line offset %d = 0x%08x, reference 0x%08x", n, align, hw, ref); }
        if (sw != ref) { snprintf(key, sizeof(key), "sw-mismatch|mid|%s|align%%8=%d", n < 65536 ? "<64K" : ">=64K", align % 8); v_violation("C18", key, wj, "table jls_crc32c over %u bytes at cache-line offset %d = 0x%08x, reference 0x%08x", n, align, sw, ref); }
        v_count("C18", "mid_buffers", 1);
        v_feature("C18", 1, "mid|len=%u|align=%d", n, align);
    }
    free(base);
}

static void run_case(uint64_t idx, void *vctx) {
    ctx_t *c = vctx;
    if (idx < 64) case_lengths(idx, c);
    else if (idx == 64) case_tables();
    else if (idx < 69) case_headers(idx - 65, c->thorough ? 25000 : 2500);
    else if (idx < 81) case_mid(idx - 69);
    else case_big(idx - 81);
}

int main(int argc, char **argv) {
    v_init(argc, argv);
    ctx_t c = {.thorough = (int) v_arg_i(argc, argv, "--thorough", 0)};
    g_check = "crc";
    run_opts_t ro = {.cpu_s = 120, .wall_s = 600, .no_fork = v_has_arg(argc, argv, "--no-fork")};
    uint64_t first = (uint64_t) v_arg_i(argc, argv, "--first", 0), count = (uint64_t) v_arg_i(argc, argv, "--count", 69), stride = (uint64_t) v_arg_i(argc, argv, "--stride", 1);
    return v_run_cases(run_case, &c, first, count, stride, &ro) ? 2 : 0;
}
