/*
 * C06 / C07: the threaded writer under a controlled scheduler (engine ii, virtual time) and under
 * real threads with seeded delay injection (engine i, for ThreadSanitizer builds).
 *
 * Monitors:
 *  - content: the file equals what the synchronous writer produces for exactly the calls that
 *    returned 0, in queue order (submission model + literal synchronous reference + decoder);
 *  - queue-level: regions returned by jls_mrb_alloc stay inside the buffer and never overlap an
 *    unpopped message (observed at the real producer/consumer call sites);
 *  - discipline: Eraser-style lockset per shared object (queue, writer state) while both sides live;
 *  - flush/close oracle on the I/O log at the instant of return; exact deadlock / no-progress detection.
 */
#define _GNU_SOURCE
#include "vcommon.h"
#include "model.h"
#include "gen.h"
#include "iolog.h"
#include "jlsdec.h"
#include "coop.h"
#include "jls/writer.h"
#include "jls/threaded_writer.h"
#include "jls/reader.h"
#include "jls/msg_ring_buffer.h"
#include "jls/ec.h"
#include "jls/time.h"
#include <pthread.h>
#include <stdlib.h>
#include <string.h>
#include <math.h>
#include <unistd.h>

extern uint32_t jls_verif_mrb_buffer_size;
void coop_mark_app_thread(void);

typedef struct { int thorough; const char *engine; const char *focus; } ctx_t;

/* ------------------------------ shared monitor state -------------------------------- */
typedef struct { const void *locks[4]; int n; int init; int64_t accesses; } lockset_t;
static lockset_t ls_queue, ls_wr;
static int g_monitor_on;
static _Atomic int64_t g_alloc_seq;
static __thread op_t *t_cur_op;
static struct { uint32_t start, end; } q_items[4096]; static int q_n; static uint8_t *q_buf; static uint32_t q_cap;
static int64_t q_allocs, q_fails, q_pops, q_wraps, q_resets, q_max_count;   /* touched only inside jls_mrb_* wrappers, i.e. under the library's message lock */
static struct jls_mrb_s *q_mrb;

static void lockset_access(lockset_t *ls, const char *obj, const char *api) {
    if (!g_monitor_on || !coop_active() || coop_threads_alive() < 2 || !coop_library_threads_alive()) return;   /* no consumer: the queue and the writer belong to the caller */
    const void *held[4]; int n = coop_held(held, 4);
    ls->accesses++;
    if (!ls->init) { ls->init = 1; ls->n = n; memcpy(ls->locks, held, sizeof(held)); }
    else {
        int k = 0;
        for (int i = 0; i < ls->n; ++i) { int in = 0; for (int j = 0; j < n; ++j) if (held[j] == ls->locks[i]) in = 1; if (in) ls->locks[k++] = ls->locks[i]; }
        ls->n = k;
    }
    if (ls->n == 0) {
        char key[128]; snprintf(key, sizeof(key), "lockset-empty|%s|%s", obj, api);
        v_violation("C06", key, NULL, "%s accessed by %s through %s with no common lock (thread holds %d locks) while producer and consumer are alive", obj, coop_thread_name(coop_self()), api, n);
        ls->init = 0;   /* report each site once per case at most, then start over */
    }
}

uint8_t *__real_jls_mrb_alloc(struct jls_mrb_s *self, uint32_t size);
uint8_t *__real_jls_mrb_peek(struct jls_mrb_s *self, uint32_t *size);
uint8_t *__real_jls_mrb_pop(struct jls_mrb_s *self, uint32_t *size);

uint8_t *__wrap_jls_mrb_alloc(struct jls_mrb_s *self, uint32_t size) {
    lockset_access(&ls_queue, "queue", "jls_mrb_alloc");
    uint32_t head0 = self->head, tail0 = self->tail;
    uint8_t *p = __real_jls_mrb_alloc(self, size);
    if (!g_monitor_on) return p;
    q_mrb = self; q_buf = self->buf; q_cap = self->buf_size;
    if (!p) { q_fails++; return p; }
    q_allocs++;
    if (self->count > q_max_count) q_max_count = self->count;
    int64_t off = p - self->buf;
    uint32_t start = (uint32_t) off - 4, end = (uint32_t) off + size;
    if (off < 4 || end > self->buf_size) {
        v_violation("C06", "queue|outside-buffer", NULL, "jls_mrb_alloc(%u) returned region [%lld,%lld) outside the %u-byte queue", size, (long long) off - 4, (long long) off + size, self->buf_size);
    }
    for (int i = 0; i < q_n; ++i) if (start < q_items[i].end && q_items[i].start < end) {
        v_violation("C06", "queue|overlap", NULL, "new message region [%u,%u) overlaps unpopped message [%u,%u)", start, end, q_items[i].start, q_items[i].end);
        break;
    }
    if (start < head0 && head0 != tail0) q_wraps++;
    if (head0 == tail0 && start == 0 && head0 != 0) q_resets++;
    if (q_n < 4096) { q_items[q_n].start = start; q_items[q_n].end = end; q_n++; }
    if (t_cur_op) t_cur_op->uid = (t_cur_op->uid & 0xffffffffULL) | ((uint64_t) (++g_alloc_seq) << 32);
    return p;
}

uint8_t *__wrap_jls_mrb_peek(struct jls_mrb_s *self, uint32_t *size) {
    lockset_access(&ls_queue, "queue", "jls_mrb_peek");
    return __real_jls_mrb_peek(self, size);
}

uint8_t *__wrap_jls_mrb_pop(struct jls_mrb_s *self, uint32_t *size) {
    lockset_access(&ls_queue, "queue", "jls_mrb_pop");
    uint8_t *p = __real_jls_mrb_pop(self, size);
    if (g_monitor_on && p) {
        q_pops++;
        uint32_t start = (uint32_t) (p - self->buf) - 4;
        if (q_n && q_items[0].start == start) { memmove(q_items, q_items + 1, (size_t) (q_n - 1) * sizeof(q_items[0])); q_n--; }
        else if (q_n) { v_violation("C06", "queue|pop-order", NULL, "popped message at %u, oldest unpopped is at %u", start, q_items[0].start); q_n = 0; }
    }
    return p;
}

static void api(const char *n);
#define WRAP_WR(name, proto, args)                                              \
    int32_t __real_##name proto;                                                 \
    int32_t __wrap_##name proto { lockset_access(&ls_wr, "writer-state", #name); return __real_##name args; }
WRAP_WR(jls_wr_flush, (struct jls_wr_s *self), (self))
WRAP_WR(jls_wr_user_data, (struct jls_wr_s *self, uint16_t m, enum jls_storage_type_e st, const uint8_t *d, uint32_t n), (self, m, st, d, n))
WRAP_WR(jls_wr_fsr, (struct jls_wr_s *self, uint16_t s, int64_t id, const void *d, uint32_t n), (self, s, id, d, n))
WRAP_WR(jls_wr_fsr_omit_data, (struct jls_wr_s *self, uint16_t s, uint32_t e), (self, s, e))
WRAP_WR(jls_wr_annotation, (struct jls_wr_s *self, uint16_t s, int64_t ts, float y, enum jls_annotation_type_e at, uint8_t g, enum jls_storage_type_e st, const uint8_t *d, uint32_t n), (self, s, ts, y, at, g, st, d, n))
WRAP_WR(jls_wr_utc, (struct jls_wr_s *self, uint16_t s, int64_t id, int64_t utc), (self, s, id, utc))
WRAP_WR(jls_wr_source_def, (struct jls_wr_s *self, const struct jls_source_def_s *d), (self, d))
WRAP_WR(jls_wr_signal_def, (struct jls_wr_s *self, const struct jls_signal_def_s *d), (self, d))
WRAP_WR(jls_wr_close, (struct jls_wr_s *self), (self))

/* ------------------------------ flush oracle (I/O log) ------------------------------ */
static uint8_t g_marker[16]; static int g_marker_armed; static int64_t g_marker_seq, g_fsync_after_marker;
static void io_event(const io_ev_t *e) {
    if (e->op == IO_WRITE && g_marker_armed && g_io.keep_data && e->len >= 16) {
        if (memmem(g_io.data + e->data_pos, e->len, g_marker, 16)) g_marker_seq = e->seq;
    } else if (e->op == IO_FSYNC) {
        if (g_marker_seq >= 0 && (int64_t) e->seq > g_marker_seq && g_fsync_after_marker < 0) g_fsync_after_marker = e->seq;
    }
}

/* ------------------------------ program ---------------------------------------------- */
typedef struct {
    prog_t p;
    int nthreads;
    uint32_t qsize; uint32_t flags;
    size_t first_op[2], n_ops[2];   /* op ranges per thread (after the definition prefix) */
    size_t ndefs;
    int late_defs, rejected_defs, early_calls;
    int full_close;           /* the queue is filled to the last byte just before jls_twr_close while the writer thread is starved */
    int close_race; size_t race_first, race_n;   /* calls of thread 1 issued while thread 0 is inside jls_twr_close */
    char feat[200];
} tprog_t;

static void build_tprog(tprog_t *tp, rng_t *r, const char *focus) {
    memset(tp, 0, sizeof(*tp));
    prog_init(&tp->p);
    prog_t *p = &tp->p;
    static const uint32_t qs[] = {160, 200, 256, 384, 512, 1024, 4096, 65536};
    tp->qsize = RNG_PICK(r, qs);
    tp->flags = rng_chance(r, 1, 2) ? JLS_TWR_FLAG_DROP_ON_OVERFLOW : 0;
    tp->nthreads = rng_chance(r, 1, 2) ? 2 : 1;
    /* close on a queue that has no room even for the CLOSE message, writer thread starved for longer than the send
     * timeout: close has to keep trying (the join would never return without the message) */
    if (!strcmp(focus, "c07") && rng_chance(r, 1, 10)) {
        static const uint32_t fq[] = {160, 200, 256, 384, 512};
        tp->full_close = 1; tp->qsize = RNG_PICK(r, fq); tp->flags = JLS_TWR_FLAG_DROP_ON_OVERFLOW; tp->nthreads = 1;
    }
    prog_add_source(p, 1, "twr-src");
    uint16_t sig_of[2][3]; int nsig_of[2] = {0, 0};
    const dtype_t *types[2][3];
    for (int th = 0; th < tp->nthreads; ++th) {
        int ns = (int) rng_range(r, 1, 2);
        for (int k = 0; k < ns; ++k) {
            const dtype_t *t = rng_chance(r, 1, 2) ? dtype_by_name("f32") : &DTYPES[rng_below(r, 15)];
            struct jls_signal_def_s d;
            uint16_t sid = (uint16_t) (th * 10 + k + 1);
            gen_def(r, &d, sid, 1, t, rng_chance(r, 1, 2) ? DEF_MINIMAL : DEF_TINYLEVELS);
            d.annotation_decimate_factor = 3; d.utc_decimate_factor = 2;
            d.sample_id_offset = rng_chance(r, 1, 2) ? 0 : 500 + th;
            struct jls_signal_def_s nm; def_normalised(&d, &nm);
            int si = prog_add_signal(p, &d, "t", "u", PAT_WALK, rng_u64(r));
            p->sig[p->ops[si].def].blk = nm.samples_per_data;
            sig_of[th][k] = sid; types[th][k] = t; nsig_of[th] = k + 1;
        }
    }
    tp->ndefs = p->n;
    int flush_heavy = !strcmp(focus, "c07");
    for (int th = 0; th < tp->nthreads; ++th) {
        tp->first_op[th] = p->n;
        int nops = (int) rng_range(r, 10, flush_heavy ? 60 : 120);
        int64_t pos[3] = {0, 0, 0};
        int64_t ts = th * 1000000;
        /* a signal defined while streaming (the definition call runs in the application thread, concurrently
         * with the writer thread), and definition calls that the writer rejects */
        int late_at = (!tp->full_close && rng_chance(r, 1, 3)) ? (int) rng_range(r, 2, nops / 2) : -1;
        if (tp->full_close) nops = (int) rng_range(r, 0, 12);
        const dtype_t *late_t = &DTYPES[rng_below(r, 15)];
        int early = late_at > 0 && rng_chance(r, 1, 2);   /* sample calls that name the late signal before it is defined: to be refused */
        for (int q = 0; q < nops; ++q) {
            int kind = (int) rng_below(r, 100);
            op_t *o;
            if (early && q < late_at && rng_chance(r, 1, 6)) {
                o = prog_add(p, OP_FSR); o->id = (uint16_t) (th * 10 + 5);
                o->sid = 0; o->n = (uint32_t) rng_range(r, 1, 64 * 8 / late_t->bits + 1); o->vseed = rng_u64(r);
                o->thread = (uint8_t) th; o->expect_reject = 7;   /* 7 = names a signal that is not defined yet */
                tp->early_calls++;
                continue;
            }
            if (q == late_at) {
                const dtype_t *t = late_t;
                struct jls_signal_def_s d, nm;
                uint16_t sid = (uint16_t) (th * 10 + 5);
                gen_def(r, &d, sid, 1, t, DEF_MINIMAL);
                d.annotation_decimate_factor = 3; d.utc_decimate_factor = 2; d.sample_id_offset = 0;
                def_normalised(&d, &nm);
                int si = prog_add_signal(p, &d, "late", "u", PAT_WALK, rng_u64(r));
                p->sig[p->ops[si].def].blk = nm.samples_per_data;
                p->ops[si].thread = (uint8_t) th;
                sig_of[th][nsig_of[th]] = sid; types[th][nsig_of[th]] = t; nsig_of[th]++;
                tp->late_defs++;
                /* flush - definition - flush with nothing queued in between: the definition is written by this thread */
                if (rng_chance(r, 1, 2)) {
                    op_t *f1 = prog_add(p, OP_FLUSH); f1->thread = (uint8_t) th;
                    /* move the definition behind the first flush: swap the two ops */
                    op_t tmp = p->ops[si]; p->ops[si] = *f1; *f1 = tmp;
                    op_t *f2 = prog_add(p, OP_FLUSH); f2->thread = (uint8_t) th;
                }
                continue;
            }
            if (rng_chance(r, 1, 40)) {
                /* rejected definition: a second definition of an existing signal id, or a signal naming an undefined source */
                int si;
                if (rng_chance(r, 1, 2)) {
                    /* the same definition again (the op refers to the existing program signal) */
                    op_t *dd = prog_add(p, OP_SIGNAL); dd->id = sig_of[th][0];
                    for (size_t z = 0; z < p->nsig; ++z) if (p->sig[z].def.signal_id == sig_of[th][0]) dd->def = (uint32_t) z;
                    si = (int) (dd - p->ops);
                } else {
                    struct jls_signal_def_s d;
                    gen_def(r, &d, (uint16_t) (200 + th), 77, &DTYPES[0], DEF_MINIMAL);
                    si = prog_add_signal(p, &d, "orphan", "u", PAT_WALK, 1);
                }
                p->ops[si].thread = (uint8_t) th; p->ops[si].expect_reject = 1;
                tp->rejected_defs++;
                continue;
            }
            int k = (int) rng_below(r, (uint64_t) nsig_of[th]);
            uint16_t sid = sig_of[th][k];
            const dtype_t *t = types[th][k];
            int64_t first = p->sig[0].def.sample_id_offset; (void) first;
            if (kind < 55) {
                o = prog_add(p, OP_FSR); o->id = sid;
                int64_t base = 0;
                for (size_t s = 0; s < p->nsig; ++s) if (p->sig[s].def.signal_id == sid) base = p->sig[s].def.sample_id_offset;
                /* message payload: sized against the queue so that wrap, full and too-big occur */
                uint32_t maxb = tp->qsize > 4096 ? 600 : tp->qsize / 2;
                uint32_t bytes = (uint32_t) rng_range(r, 1, maxb);
                if (rng_chance(r, 1, 12)) bytes = tp->qsize - (uint32_t) rng_range(r, 40, 60);     /* almost the whole queue */
                uint32_t n = bytes * 8 / (uint32_t) t->bits; if (!n) n = 1;
                if (t->bits < 8) n += (uint32_t) rng_below(r, 8);   /* sub-byte types: calls that do not end on a byte boundary */
                o->sid = base + pos[k]; o->n = n; o->vseed = rng_u64(r);
                pos[k] += n;
            } else if (kind < 70) {
                o = prog_add(p, OP_ANNO); o->id = rng_chance(r, 1, 3) ? 0 : sid; ts += (int64_t) rng_below(r, 3); o->ts = ts; o->y = (float) q; o->atype = (uint8_t) rng_below(r, 4);
                o->group = (uint8_t) q; o->stype = (uint8_t) rng_range(r, 1, 3); o->dsize = (uint32_t) rng_range(r, 8, 40); o->dseed = rng_u64(r);
            } else if (kind < 78) {
                o = prog_add(p, OP_UTC); o->id = sid;
                int64_t base = 0;
                for (size_t s = 0; s < p->nsig; ++s) if (p->sig[s].def.signal_id == sid) base = p->sig[s].def.sample_id_offset;
                o->sid = base + pos[k] + q; o->utc = JLS_TIME_SECOND * 1000 + (int64_t) q * 1000 + th;
            } else if (kind < 88) {
                o = prog_add(p, OP_USER); o->meta = (uint16_t) rng_below(r, 4096); o->stype = (uint8_t) rng_range(r, 1, 3); o->dsize = (uint32_t) rng_range(r, 8, 60); o->dseed = rng_u64(r);
            } else if (kind < 92) {
                o = prog_add(p, OP_OMIT); o->id = sid; o->enable = (uint32_t) rng_below(r, 2);
            } else {
                if (tp->full_close) continue;   /* a flush under starvation would use up the unfair window */
                if (!flush_heavy && !rng_chance(r, 1, 2)) { --q; continue; }
                /* marker + flush */
                o = prog_add(p, OP_USER); o->meta = 0xABC; o->stype = JLS_STORAGE_TYPE_BINARY; o->dsize = 16; o->dseed = rng_u64(r); o->thread = (uint8_t) th; o->expect_reject = 9;  /* 9 = marker */
                o = prog_add(p, OP_FLUSH);
            }
            o->thread = (uint8_t) th;
            if (flush_heavy && rng_chance(r, 1, 4)) { op_t *m = prog_add(p, OP_USER); m->meta = 0xABC; m->stype = JLS_STORAGE_TYPE_BINARY; m->dsize = 16; m->dseed = rng_u64(r); m->thread = (uint8_t) th; m->expect_reject = 9; op_t *f = prog_add(p, OP_FLUSH); f->thread = (uint8_t) th; }
        }
        if (tp->full_close) {
            /* one- and two-sample calls until nothing fits any more (dropped at once: DROP_ON_OVERFLOW) */
            const dtype_t *t = types[th][0];
            int64_t base = 0;
            for (size_t z = 0; z < p->nsig; ++z) if (p->sig[z].def.signal_id == sig_of[th][0]) base = p->sig[z].def.sample_id_offset;
            int nb = (int) (tp->qsize / 36 + 8);
            for (int q = 0; q < nb; ++q) {
                op_t *o = prog_add(p, OP_FSR); o->id = sig_of[th][0]; o->thread = (uint8_t) th;
                uint32_t n = q < nb / 2 ? 2 : 1; if (t->bits < 8) n = (uint32_t) (8 / t->bits) * n;
                o->sid = base + pos[0]; o->n = n; o->vseed = rng_u64(r); pos[0] += n;
            }
        }
        tp->n_ops[th] = p->n - tp->first_op[th];
    }
    /* close race: a second producer whose last calls are accepted after CLOSE was queued but before the writer thread
     * reaches it (only meaningful when the writer thread is starved until both producers are done: see run_case) */
    if (tp->nthreads == 2 && rng_chance(r, 1, 6)) {
        tp->close_race = 1; tp->qsize = 65536; tp->flags = 0;
        tp->race_first = p->n;
        int nr = (int) rng_range(r, 1, 4);
        for (int q = 0; q < nr; ++q) {
            op_t *o;
            if (q % 2 == 0) { o = prog_add(p, OP_USER); o->meta = (uint16_t) (0x700 + q); o->stype = JLS_STORAGE_TYPE_BINARY; o->dsize = (uint32_t) rng_range(r, 8, 40); o->dseed = rng_u64(r); }
            else { o = prog_add(p, OP_ANNO); o->id = 0; o->ts = 5000000 + q; o->y = 1.0f; o->atype = 1; o->group = (uint8_t) q; o->stype = JLS_STORAGE_TYPE_BINARY; o->dsize = 12; o->dseed = rng_u64(r); }
            o->thread = 1;
        }
        tp->race_n = p->n - tp->race_first;
    }
    snprintf(tp->feat, sizeof(tp->feat), "q=%u|drop=%d|threads=%d|late-def=%d|rej-def=%d|early=%d", tp->qsize, tp->flags ? 1 : 0, tp->nthreads, tp->late_defs > 0, tp->rejected_defs > 0, tp->early_calls > 0);
    if (tp->close_race) snprintf(tp->feat + strlen(tp->feat), sizeof(tp->feat) - strlen(tp->feat), "|close-race");
    if (tp->full_close) snprintf(tp->feat + strlen(tp->feat), sizeof(tp->feat) - strlen(tp->feat), "|close-on-full-queue");
}

/* ------------------------------ execution -------------------------------------------- */
static struct jls_twr_s *g_wr;
static int g_controlled;
static void api(const char *n) { if (g_controlled) v_api(n); }   /* the crash-context page is single-writer: only used when one thread runs at a time */
static tprog_t *g_tp;
static _Atomic int64_t n_flush_sync_checked, n_flush_ok, n_flush_timeout, n_markers_checked, n_rejected, n_accepted, n_busy_timeouts;
static void fill_source(const psrc_t *s, struct jls_source_def_s *d) { *d = s->def; d->name = s->s[0]; d->vendor = s->s[1]; d->model = s->s[2]; d->version = s->s[3]; d->serial_number = s->s[4]; }
static void fill_signal(const psig_t *s, struct jls_signal_def_s *d) { *d = s->def; d->name = s->name; d->units = s->units; }

static void exec_one(prog_t *p, op_t *o, op_t *prev) {
    int32_t rc = 0;
    t_cur_op = o;
    switch (o->kind) {
        case OP_SOURCE: { struct jls_source_def_s d; fill_source(&p->src[o->def], &d); coop_call_begin("jls_twr_source_def"); api("jls_twr_source_def"); rc = jls_twr_source_def(g_wr, &d); break; }
        case OP_SIGNAL: { struct jls_signal_def_s d; fill_signal(&p->sig[o->def], &d); coop_call_begin("jls_twr_signal_def"); api("jls_twr_signal_def"); rc = jls_twr_signal_def(g_wr, &d); break; }
        case OP_FSR: {
            const psig_t *ps = NULL;
            for (size_t i = 0; i < p->nsig; ++i) if (p->sig[i].def.signal_id == o->id) ps = &p->sig[i];
            const dtype_t *t = dtype_by_code(ps->def.data_type);
            size_t nbytes = ((size_t) o->n * t->bits + 7) / 8;
            uint8_t *buf = malloc(nbytes ? nbytes : 1);
            gen_samples(ps, o->vseed, o->sid, o->n, buf);
            coop_call_begin("jls_twr_fsr"); api("jls_twr_fsr");
            rc = jls_twr_fsr(g_wr, o->id, o->sid, buf, o->n);
            free(buf);
            break;
        }
        case OP_OMIT: coop_call_begin("jls_twr_fsr_omit_data"); api("jls_twr_fsr_omit_data"); rc = jls_twr_fsr_omit_data(g_wr, o->id, o->enable); break;
        case OP_ANNO: { uint8_t *b = gen_payload(o->stype, o->dsize, o->dseed); coop_call_begin("jls_twr_annotation"); api("jls_twr_annotation"); rc = jls_twr_annotation(g_wr, o->id, o->ts, o->y, o->atype, o->group, o->stype, b, twr_size_arg(o->stype, o->dsize, o->dseed)); free(b); break; }
        case OP_UTC: coop_call_begin("jls_twr_utc"); api("jls_twr_utc"); rc = jls_twr_utc(g_wr, o->id, o->sid, o->utc); break;
        case OP_USER: {
            uint8_t *b = gen_payload(o->stype, o->dsize, o->dseed);
            if (o->expect_reject == 9 && g_controlled && o->thread == 0) { memcpy(g_marker, b, 16); g_marker_seq = -1; g_fsync_after_marker = -1; g_marker_armed = 1; }
            coop_call_begin("jls_twr_user_data"); api("jls_twr_user_data");
            rc = jls_twr_user_data(g_wr, o->meta, o->stype, b, twr_size_arg(o->stype, o->dsize, o->dseed));
            free(b);
            break;
        }
        case OP_FLUSH: {
            coop_call_begin("jls_twr_flush"); api("jls_twr_flush");
            size_t ev_at_call = g_controlled ? g_io.n : 0;
            rc = jls_twr_flush(g_wr);
            if (rc == 0) n_flush_ok++; else n_flush_timeout++;
            /* oracle at the instant of return: every backend write issued before the call (by the writer thread or, for
             * definitions, by an application thread) is followed by an fsync */
            if (rc == 0 && g_controlled) {
                int64_t last_w = -1, sync_after = -1;
                for (size_t e = 0; e < ev_at_call && e < g_io.n; ++e) if (g_io.ev[e].op == IO_WRITE) last_w = (int64_t) e;
                for (size_t e = last_w < 0 ? 0 : (size_t) last_w; e < g_io.n; ++e) if (g_io.ev[e].op == IO_FSYNC) { sync_after = (int64_t) e; break; }
                n_flush_sync_checked++;
                if (last_w >= 0 && sync_after < 0) {
                    char wj2[200]; snprintf(wj2, sizeof(wj2), "{\"queue\":%u,\"last_write_event\":%lld,\"events_at_call\":%zu,\"events_at_return\":%zu}", g_tp->qsize, (long long) last_w, ev_at_call, g_io.n);
                    v_violation("C07", "flush|unsynced-write-at-return", wj2, "jls_twr_flush returned 0 but no fsync followed the last backend write issued before the call");
                }
            }
            /* oracle at the instant of return: the marker submitted just before is on disk and an fsync followed it */
            if (rc == 0 && g_controlled && prev && prev->expect_reject == 9 && prev->rc == 0 && prev->thread == 0 && o->thread == 0 && g_marker_armed) {
                n_markers_checked++;
                char wj[200]; snprintf(wj, sizeof(wj), "{\"queue\":%u,\"marker_write_seq\":%lld,\"fsync_seq\":%lld,\"io_events\":%zu}", g_tp->qsize, (long long) g_marker_seq, (long long) g_fsync_after_marker, g_io.n);
                if (g_marker_seq < 0) v_violation("C07", "flush|returned-before-applied", wj, "jls_twr_flush returned 0 but the message submitted before it has not been written");
                else if (g_fsync_after_marker < 0) v_violation("C07", "flush|no-sync-after-write", wj, "jls_twr_flush returned 0 but no fsync followed the write of the message submitted before it");
            }
            if (o->thread == 0) g_marker_armed = 0;
            break;
        }
        default: break;
    }
    coop_call_end(); api("");
    t_cur_op = NULL;
    o->rc = rc;
    if (o->kind != OP_FLUSH) { if (rc) { n_rejected++; if (rc == JLS_ERROR_BUSY) n_busy_timeouts++; } else n_accepted++; }
}

static volatile int g_closing, g_main_done, g_t1_done;
static pthread_mutex_t g_hm = PTHREAD_MUTEX_INITIALIZER; static pthread_cond_t g_hc = PTHREAD_COND_INITIALIZER, g_hc1 = PTHREAD_COND_INITIALIZER;
static void *app_thread(void *arg) {
    int th = (int) (intptr_t) arg;
    prog_t *p = &g_tp->p;
    for (size_t i = 0; i < g_tp->n_ops[th]; ++i) {
        op_t *o = &p->ops[g_tp->first_op[th] + i];
        exec_one(p, o, i ? o - 1 : NULL);
    }
    if (th == 1 && g_tp->close_race && g_controlled) {
        /* blocked (not spinning, not sleeping) until thread 0 is about to close: thread 0 may still need the writer thread.
         * Once signalled this thread stays runnable until its calls are issued, so the starved writer thread cannot reach
         * the CLOSE message before them. */
        pthread_mutex_lock(&g_hm);
        g_t1_done = 1; pthread_cond_signal(&g_hc1);
        while (!g_main_done) pthread_cond_wait(&g_hc, &g_hm);
        pthread_mutex_unlock(&g_hm);
        for (size_t i = 0; i < g_tp->race_n; ++i) exec_one(p, &p->ops[g_tp->race_first + i], NULL);
    }
    return NULL;
}

static void on_stuck(const char *kind, const char *state) {
    char key[200], wj[300];
    snprintf(key, sizeof(key), "%s|%s|in=%s", kind, state, g_tp && v_violation_count() >= 0 ? "call" : "-");
    /* the API call in flight per thread is in the shared context */
    snprintf(key, sizeof(key), "%s|%s", kind, state);
    snprintf(wj, sizeof(wj), "{\"queue\":%u,\"drop\":%d,\"threads\":%d,\"virtual_time_s\":%.3f}", g_tp ? g_tp->qsize : 0, g_tp ? (int) g_tp->flags : 0, g_tp ? g_tp->nthreads : 0, (double) coop_now_ns() * 1e-9);
    v_violation("C07", key, wj, "%s: threads are %s (no thread can run again / the call exceeded its step budget)", kind, state);
    v_count_flush();
}

static int cmp_seq(const void *a, const void *b) {
    const op_t *x = *(op_t *const *) a, *y = *(op_t *const *) b;
    uint64_t sx = x->uid >> 32, sy = y->uid >> 32;
    return sx < sy ? -1 : sx > sy;
}

static void run_case(uint64_t idx, void *vctx) {
    ctx_t *c = vctx;
    rng_t r; rng_seed(&r, vmix(g_seed, idx ^ (c->focus[1] == '0' && c->focus[2] == '7' ? 0x7007 : 0x6006)));
    jls_quiet();
    tprog_t tp; build_tprog(&tp, &r, c->focus);
    g_tp = &tp;
    prog_t *p = &tp.p;
    const char *path = v_path("twr.jls");
    g_controlled = strcmp(c->engine, "real") != 0;
    jls_verif_mrb_buffer_size = tp.qsize;
    coop_cfg_t cfg; memset(&cfg, 0, sizeof(cfg));
    cfg.seed = rng_u64(&r);
    cfg.policy = (int) rng_below(&r, POL_COUNT);
    cfg.pct_depth = (int) rng_below(&r, 4);
    { static const double tj[] = {0, 0, 0.02, 0.2, 1.0}; cfg.time_jump_prob = RNG_PICK(&r, tj); }
    if (cfg.policy != POL_STARVE_CONSUMER && cfg.policy != POL_STARVE_PRODUCER && cfg.time_jump_prob > 0.5) cfg.time_jump_prob = 0.2;
    { static const int64_t uf[] = {2, 8, 30, 60}; cfg.unfair_until_ns = (1 + RNG_PICK(&r, uf)) * 1000000000LL; }
    if (tp.close_race && g_controlled) { cfg.policy = POL_STARVE_CONSUMER; cfg.time_jump_prob = 0; cfg.unfair_until_ns = 3600LL * 1000000000LL; }
    if (tp.full_close && g_controlled) { cfg.policy = POL_STARVE_CONSUMER; cfg.time_jump_prob = 1.0; cfg.unfair_until_ns = 9LL * 1000000000LL; }
    g_closing = 0; g_main_done = 0; g_t1_done = 0;
    char schedfeat[96];
    snprintf(schedfeat, sizeof(schedfeat), "%s|jump=%.2f", g_controlled ? POL_NAME[cfg.policy] : "real-threads", g_controlled ? cfg.time_jump_prob : 0.0);
    v_ctx("twr case %llu %s %s", (unsigned long long) idx, tp.feat, schedfeat);
    memset(&ls_queue, 0, sizeof(ls_queue)); memset(&ls_wr, 0, sizeof(ls_wr));
    q_n = 0; g_alloc_seq = 0; g_marker_armed = 0; g_marker_seq = -1; g_fsync_after_marker = -1;
    iolog_start(path, 1, 1);
    g_io.on_event = g_controlled ? io_event : NULL;
    g_io.before_io = g_controlled ? coop_preempt : NULL;
    coop_on_stuck = on_stuck;
    if (g_controlled) coop_begin(&cfg); else coop_inject_delays(cfg.seed, 150, 200);
    g_monitor_on = 1;
    coop_call_begin("jls_twr_open"); v_api("jls_twr_open");
    int32_t rc = jls_twr_open(&g_wr, path);
    coop_call_end();
    if (rc) { v_note("C06", "jls_twr_open failed rc=%d", rc); return; }
    jls_twr_flags_set(g_wr, tp.flags);
    for (size_t i = 0; i < tp.ndefs; ++i) exec_one(p, &p->ops[i], NULL);
    pthread_t th1; int have1 = 0;
    if (tp.nthreads == 2) { coop_mark_app_thread(); have1 = !pthread_create(&th1, NULL, app_thread, (void *) (intptr_t) 1); }
    app_thread((void *) (intptr_t) 0);
    int race = tp.close_race && g_controlled && have1;
    if (have1 && !race) pthread_join(th1, NULL);
    coop_call_begin("jls_twr_close"); v_api("jls_twr_close");
    size_t ev_before_close = g_controlled ? g_io.n : 0;
    if (race) {
        pthread_mutex_lock(&g_hm); while (!g_t1_done) pthread_cond_wait(&g_hc1, &g_hm); pthread_mutex_unlock(&g_hm);
        /* drain the queue while thread 1 is blocked: its few calls then fit without waiting for the writer thread
         * (a call that has to wait would let the writer thread finish CLOSE first, and a call issued after close has
         * returned is a caller error) */
        coop_call_begin("jls_twr_flush"); jls_twr_flush(g_wr); coop_call_end();
        pthread_mutex_lock(&g_hm); g_main_done = 1; pthread_cond_signal(&g_hc); pthread_mutex_unlock(&g_hm);
    }
    g_closing = 1;
    rc = jls_twr_close(g_wr);
    coop_call_end(); v_api("");
    if (race) pthread_join(th1, NULL);
    g_monitor_on = 0;
    /* close oracle: at return the descriptor is closed */
    int closed = 0;
    for (size_t e = ev_before_close; e < g_io.n; ++e) if (g_io.ev[e].op == IO_CLOSE) closed = 1;
    if (!closed) v_violation("C07", "close|file-not-closed", NULL, "jls_twr_close returned %d but the file descriptor was not closed", rc);
    coop_stats_t st; memset(&st, 0, sizeof(st));
    if (g_controlled) coop_end(&st); else coop_inject_delays(0, 0, 0);
    iolog_stop();
    /* ---- content ---- */
    model_t m; model_init(&m, p);
    for (size_t i = 0; i < tp.ndefs; ++i) model_apply(&m, i);
    size_t nq = 0; op_t **q = malloc((p->n + 1) * sizeof(op_t *));
    for (size_t i = tp.ndefs; i < p->n; ++i) if (p->ops[i].kind == OP_SIGNAL || p->ops[i].kind == OP_SOURCE) {
        /* definition calls are executed by the caller, not queued */
        if (p->ops[i].rc == 0 && p->ops[i].expect_reject) v_violation("C06", "rejectable-definition-accepted", NULL, "a definition that must be rejected (duplicate id / undefined source) returned 0 through the threaded writer");
        if (p->ops[i].rc == 0) model_apply(&m, i);
    }
    for (size_t i = tp.ndefs; i < p->n; ++i) if (p->ops[i].kind != OP_FLUSH && p->ops[i].kind != OP_SIGNAL && p->ops[i].kind != OP_SOURCE && p->ops[i].rc == 0) {
        if ((p->ops[i].uid >> 32) == 0) v_violation("C06", "accepted-call-never-queued", NULL, "a call returned 0 but no queue allocation was observed for it");
        q[nq++] = &p->ops[i];
    }
    qsort(q, nq, sizeof(op_t *), cmp_seq);
    /* per-thread order must be preserved in the queue order */
    { uint64_t last[2] = {0, 0}; size_t lastidx[2] = {0, 0};
      for (size_t i = 0; i < nq; ++i) { int th = q[i]->thread & 1; size_t pi = (size_t) (q[i] - p->ops); if (last[th] && pi < lastidx[th]) v_violation("C06", "queue-order-vs-submission-order", NULL, "thread %d: a later call was queued before an earlier one", th); last[th] = 1; lastidx[th] = pi; } }
    for (size_t i = 0; i < nq; ++i) model_apply(&m, (size_t) (q[i] - p->ops));
    char wj[300];
    snprintf(wj, sizeof(wj), "{\"queue\":%u,\"drop\":%d,\"threads\":%d,\"policy\":\"%s\",\"accepted\":%lld,\"rejected\":%lld,\"steps\":%lld}", tp.qsize, tp.flags ? 1 : 0, tp.nthreads, schedfeat,
             (long long) n_accepted, (long long) n_rejected, (long long) st.steps);
    int before = v_violation_count();
    decode_and_compare(path, &m, "C06", "twr", 0);
    decode_and_compare(path, &m, "C05", "twr", 0);
    rng_t vr; rng_seed(&vr, vmix(g_seed, idx));
    verify_opts_t vo = {.prop_len = "C06", .prop_data = "C06", .prop_stats = "C06", .windows = 8, .check_defs = 1, .check_anno = 0, .check_utc = 0, .check_user = 0, .rng = &vr, .file_kind = "twr", .tolerate_omitted_tail = 1};
    verify_file(path, &m, &vo);
    /* literal reference: the synchronous writer fed the accepted calls in queue order */
    const char *ref = v_path("twr-ref.jls");
    {
        struct jls_wr_s *sw = NULL;
        if (!jls_wr_open(&sw, ref)) {
            for (size_t i = 0; i < tp.ndefs; ++i) { op_t o = p->ops[i]; exec_op_sync(sw, p, &o); }
            for (size_t i = tp.ndefs; i < p->n; ++i) if ((p->ops[i].kind == OP_SIGNAL || p->ops[i].kind == OP_SOURCE) && p->ops[i].rc == 0) { op_t o = p->ops[i]; exec_op_sync(sw, p, &o); }
            for (size_t i = 0; i < nq; ++i) { op_t o = *q[i]; exec_op_sync(sw, p, &o); if (o.rc) v_note("C06", "reference: synchronous writer rejected an accepted call rc=%d", o.rc); }
            jls_wr_close(sw);
            dump_t da, db; uint64_t ds = vmix(g_seed, 99);
            dump_file(path, &da, ds); dump_file(ref, &db, ds);
            dump_compare(&da, &db, "C06", "content-vs-sync-reference", "threaded writer vs synchronous reference");
        }
        unlink(ref);
    }
    if (v_violation_count() != before) {
        v_note("C06", "%s", wj);
        /* C07: at the return of jls_twr_close every accepted call has been applied */
        v_violation("C07", tp.close_race ? "close|accepted-calls-not-applied|calls-concurrent-with-close" : "close|accepted-calls-not-applied", wj,
                    "after jls_twr_close returned the file does not hold every accepted call (see the C06 records of this case)");
    }
    /* ---- evidence ---- */
    v_feature("C14", g_io.n_write > 0, "twr|threads=%d|late-def=%d|hdr-rewrites=%d", tp.nthreads, tp.late_defs > 0, g_io.n_inplace_hdr > 8 ? 2 : g_io.n_inplace_hdr > 0);
    v_count("C14", "backend_writes", (int64_t) g_io.n_write); v_count("C14", "appends", (int64_t) g_io.n_append); v_count("C14", "inplace_header_rewrites", (int64_t) g_io.n_inplace_hdr);
    v_count("C14", "inplace_head_table_rewrites", (int64_t) g_io.n_inplace_head); v_count("C14", "threaded_writer_runs", 1);
    v_feature("C06", nq > 0, "%s|%s|wrap=%d|full=%d|reject=%d", tp.feat, schedfeat, q_wraps > 0, q_fails > 0, n_rejected > 0);
    v_feature("C07", n_flush_ok + n_flush_timeout > 0, "%s|%s|flush-ok=%d|flush-timeout=%d|busy=%d", tp.feat, schedfeat, n_flush_ok > 0, n_flush_timeout > 0, n_busy_timeouts > 0);
    v_count("C06", "calls_accepted", n_accepted); v_count("C06", "calls_rejected", n_rejected);
    v_count("C06", "queue_allocations", q_allocs); v_count("C06", "queue_full_observed", q_fails); v_count("C06", "queue_wraps", q_wraps); v_count("C06", "queue_empty_resets", q_resets);
    v_count("C06", "lockset_accesses_queue", ls_queue.accesses); v_count("C06", "lockset_accesses_writer_state", ls_wr.accesses);
    v_count("C06", "scheduling_points", st.steps); v_count("C06", "context_switches", st.switches); v_count("C06", "virtual_time_jumps", st.time_jumps);
    v_count("C07", "flush_returned_0", n_flush_ok); v_count("C07", "flush_timed_out", n_flush_timeout); v_count("C07", "flush_markers_checked", n_markers_checked); v_count("C07", "flush_sync_checked", n_flush_sync_checked);
    v_count("C07", "closes", 1); v_count("C07", "send_timeouts", n_busy_timeouts); v_count("C07", "scheduling_points", st.steps); v_count("C07", "sleeps", st.sleeps);
    { char sg[64]; snprintf(sg, sizeof(sg), "sig=%016llx", (unsigned long long) st.signature); v_feature("C06", 1, "schedule|%s", g_controlled ? sg : "real"); v_feature("C07", 1, "schedule|%s", g_controlled ? sg : "real"); }
    if ((idx % 64) < 2) { jb_t j; jb_init(&j); jb_obj_begin(&j); jb_str(&j, "config", tp.feat); jb_str(&j, "schedule", schedfeat); jb_int(&j, "calls", (int64_t) p->n); jb_int(&j, "steps", st.steps); jb_int(&j, "switches", st.switches); jb_obj_end(&j); v_sample("C06", j.b); v_sample("C07", j.b); jb_free(&j); }
    free(q);
    model_free(&m); prog_free(p);
    unlink(path);
}

int main(int argc, char **argv) {
    v_init(argc, argv);
    ctx_t c = {.thorough = (int) v_arg_i(argc, argv, "--thorough", 0)};
    c.engine = v_arg(argc, argv, "--engine", "coop");
    c.focus = v_arg(argc, argv, "--focus", "c06");
    g_check = c.focus;
    run_opts_t ro = {.cpu_s = 60, .wall_s = 120, .no_fork = v_has_arg(argc, argv, "--no-fork")};
    uint64_t first = (uint64_t) v_arg_i(argc, argv, "--first", 0), count = (uint64_t) v_arg_i(argc, argv, "--count", 10), stride = (uint64_t) v_arg_i(argc, argv, "--stride", 1);
    return v_run_cases(run_case, &c, first, count, stride, &ro) ? 2 : 0;
}
