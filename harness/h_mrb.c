/*
 * C08: the message ring buffer is a faithful bounded FIFO that never leaves its buffer.
 * Direct harness on jls_mrb_* (single thread) with a reference deque built from the *returned
 * pointers*.  Exhaustive breadth-first exploration of the reachable state space for small
 * capacities (all sizes 0..capacity), long random sequences for larger ones.
 */
#define _GNU_SOURCE
#include "vcommon.h"
#include "jls/msg_ring_buffer.h"
#include <stdlib.h>
#include <string.h>

#define GUARD 32
#define MAXITEMS 40
#define SLACK 12     /* implementation reserve allowed by the property's quantifier, beyond the 4-byte prefix */

typedef struct { uint32_t start, end; uint8_t marker; } item_t;   /* [start,end): start includes the 4-byte prefix */

typedef struct {
    uint32_t head, tail, count;
    uint32_t prev_end;      /* end of the most recently allocated message */
    uint8_t n;
    item_t it[MAXITEMS];
} shadow_t;

typedef struct {
    uint32_t cap;
    uint8_t *mem;          /* GUARD + cap + GUARD */
    struct jls_mrb_s q;
    shadow_t sh;
    int64_t ops, allocs_ok, allocs_fail, pops, wraps, fail_reserve_max;
} sim_t;

static uint8_t pat(uint32_t start, uint32_t size, uint32_t i) { return (uint8_t) (vhash64(((uint64_t) start << 32) ^ size) >> (8 * (i & 7))) ^ (uint8_t) (i * 31); }

static void sim_init(sim_t *s, uint32_t cap) {
    memset(s, 0, sizeof(*s));
    s->cap = cap;
    s->mem = malloc(cap + 2 * GUARD);
    memset(s->mem, 0xA5, cap + 2 * GUARD);
    jls_mrb_init(&s->q, s->mem + GUARD, cap);
}

static int guards_ok(const sim_t *s) {
    for (int i = 0; i < GUARD; ++i) if (s->mem[i] != 0xA5 || s->mem[GUARD + s->cap + i] != 0xA5) return 0;
    return 1;
}

static void witness(const sim_t *s, char *wj, size_t n, const char *op, uint32_t size) {
    size_t k = (size_t) snprintf(wj, n, "{\"capacity\":%u,\"op\":\"%s\",\"size\":%u,\"head\":%u,\"tail\":%u,\"count\":%u,\"queued\":[", s->cap, op, size, s->sh.head, s->sh.tail, s->sh.count);
    for (int i = 0; i < s->sh.n && k < n - 40; ++i) k += (size_t) snprintf(wj + k, n - k, "%s[%u,%u%s]", i ? "," : "", s->sh.it[i].start, s->sh.it[i].end, s->sh.it[i].marker ? ",\"wrap\"" : "");
    snprintf(wj + k, n - k, "]}");
}

/* does a message of 'size' fit contiguously in FIFO order, with the allowed reserve? */
static int model_fits(const sim_t *s, uint32_t size, int64_t *room) {
    int64_t need = (int64_t) size + 4 + SLACK;
    const shadow_t *h = &s->sh;
    if (h->n == 0) { *room = s->cap; (void) need; return (int64_t) size <= (int64_t) s->cap - 16; }
    int64_t S = h->it[0].start, E = h->it[h->n - 1].end;
    if (E <= S) { *room = S - E; return need <= S - E; }
    int64_t r1 = (int64_t) s->cap - E, r2 = S;
    *room = r1 > r2 ? r1 : r2;
    return need <= r1 || need <= r2;
}

/* returns 1 on violation */
static int do_alloc(sim_t *s, uint32_t size) {
    char wj[700], key[96];
    witness(s, wj, sizeof(wj), "alloc", size);
    s->ops++;
    uint8_t *p = jls_mrb_alloc(&s->q, size);
    s->sh.head = s->q.head; s->sh.tail = s->q.tail; s->sh.count = s->q.count;
    if (!guards_ok(s)) { snprintf(key, sizeof(key), "guard-bytes|alloc|%s", size + 16 > s->cap ? "near-capacity" : "normal"); v_violation("C08", key, wj, "guard bytes around the buffer were modified by jls_mrb_alloc(%u)", size); return 1; }
    int64_t room = 0;
    if (!p) {
        s->allocs_fail++;
        if (model_fits(s, size, &room)) {
            snprintf(key, sizeof(key), "alloc-fail-but-fits|%s", s->sh.n ? "nonempty" : "empty");
            v_violation("C08", key, wj, "jls_mrb_alloc(%u) failed although %lld contiguous bytes are usable", size, (long long) room);
            return 1;
        }
        if (s->sh.n) { int64_t res = room - ((int64_t) size + 4); if (res > s->fail_reserve_max) s->fail_reserve_max = res; }
        return 0;
    }
    s->allocs_ok++;
    uint8_t *buf = s->mem + GUARD;
    int64_t off = p - buf;
    if (off < 4 || off + (int64_t) size > (int64_t) s->cap) {
        snprintf(key, sizeof(key), "outside-buffer|%s", size + 16 > s->cap ? "near-capacity" : "normal");
        v_violation("C08", key, wj, "jls_mrb_alloc(%u) returned offset %lld: region [%lld,%lld) leaves the %u-byte buffer", size, (long long) off, (long long) off - 4, (long long) off + size, s->cap);
        return 1;
    }
    uint32_t start = (uint32_t) off - 4, end = (uint32_t) off + size;
    shadow_t *h = &s->sh;
    for (int i = 0; i < h->n; ++i) {
        if (h->it[i].marker) continue;
        if (start < h->it[i].end && h->it[i].start < end) {
            snprintf(key, sizeof(key), "overlap|%s", size + 16 > s->cap ? "near-capacity" : "normal");
            v_violation("C08", key, wj, "new region [%u,%u) overlaps unpopped message [%u,%u)", start, end, h->it[i].start, h->it[i].end);
            return 1;
        }
    }
    if (h->n + 2 > MAXITEMS) { v_note("C08", "shadow overflow"); return 0; }
    /* a wrap is observable: the new message lies below the end of the previous one */
    if (start < h->prev_end && end <= h->prev_end) {   /* (on an empty queue, end > prev_end can only be a reset) */
        if (h->prev_end < s->cap) { h->it[h->n].start = h->prev_end; h->it[h->n].end = s->cap; h->it[h->n].marker = 1; h->n++; }
        s->wraps++;
    }
    /* an assumed wrap marker (queue was empty, could have been a reset) is disproved by a message that reaches into it */
    if (h->n && h->it[0].marker && end > h->it[0].start && start < h->it[0].end) {
        memmove(h->it, h->it + 1, (size_t) (h->n - 1) * sizeof(item_t));
        h->n--;
    }
    h->it[h->n].start = start; h->it[h->n].end = end; h->it[h->n].marker = 0; h->n++;
    h->prev_end = end;
    for (uint32_t i = 0; i < size; ++i) p[i] = pat(start, size, i);
    return 0;
}

static int do_pop(sim_t *s, int peek_only) {
    char wj[700], key[96];
    witness(s, wj, sizeof(wj), peek_only ? "peek" : "pop", 0);
    s->ops++;
    uint32_t sz = 0xdeadbeef;
    uint8_t *p = peek_only ? jls_mrb_peek(&s->q, &sz) : jls_mrb_pop(&s->q, &sz);
    s->sh.head = s->q.head; s->sh.tail = s->q.tail; s->sh.count = s->q.count;
    shadow_t *h = &s->sh;
    if (!guards_ok(s)) { v_violation("C08", "guard-bytes|pop", wj, "guard bytes modified by peek/pop"); return 1; }
    /* the wrap marker at the front is consumed by any peek */
    int front = 0;
    while (front < h->n && h->it[front].marker) ++front;
    if (front >= h->n) {
        if (p) { v_violation("C08", "pop-from-empty", wj, "peek/pop returned a message (size %u) from an empty queue", sz); return 1; }
        if (!peek_only) { h->n = 0; }
        return 0;
    }
    if (!p) { snprintf(key, sizeof(key), "lost-message|%s", h->it[front].end - h->it[front].start + 12 > s->cap ? "near-capacity" : "normal"); v_violation("C08", key, wj, "peek/pop returned nothing but %d messages are queued", h->n - front); return 1; }
    uint8_t *buf = s->mem + GUARD;
    int64_t off = p - buf;
    item_t *f = &h->it[front];
    if (off != (int64_t) f->start + 4) { v_violation("C08", "order", wj, "peek/pop returned the message at offset %lld, the oldest unpopped one is at %u", (long long) off, f->start + 4); return 1; }
    uint32_t fsz = f->end - f->start - 4;
    if (sz != fsz) { v_violation("C08", "size", wj, "peek/pop returned size %u, allocated size %u", sz, fsz); return 1; }
    for (uint32_t i = 0; i < fsz; ++i) if (p[i] != pat(f->start, fsz, i)) { v_violation("C08", "bytes", wj, "byte %u of the message changed while queued", i); return 1; }
    if (!peek_only) {
        s->pops++;
        memmove(h->it, h->it + front + 1, (size_t) (h->n - front - 1) * sizeof(item_t));
        h->n = (uint8_t) (h->n - front - 1);
    }
    return 0;
}

/* ------------------------------ exhaustive BFS -------------------------------------- */
typedef struct { struct jls_mrb_s q; shadow_t sh; } state_hdr_t;

static uint64_t state_key(const sim_t *s) {
    uint64_t h = FNV_INIT;
    h = fnv1a(&s->q.head, 4, h); h = fnv1a(&s->q.tail, 4, h); h = fnv1a(&s->q.count, 4, h);
    h = fnv1a(&s->sh.prev_end, 4, h);
    for (int i = 0; i < s->sh.n; ++i) { h = fnv1a(&s->sh.it[i].start, 4, h); h = fnv1a(&s->sh.it[i].end, 4, h); h = fnv1a(&s->sh.it[i].marker, 1, h); }
    return h ? h : 1;
}

typedef struct { uint64_t *t; size_t cap, n; } hset_t;
static int hset_add(hset_t *h, uint64_t k) {
    if (h->n * 2 >= h->cap) {
        size_t nc = h->cap ? h->cap * 2 : 1 << 16;
        uint64_t *nt = calloc(nc, 8);
        for (size_t i = 0; i < h->cap; ++i) if (h->t[i]) { size_t j = h->t[i] & (nc - 1); while (nt[j]) j = (j + 1) & (nc - 1); nt[j] = h->t[i]; }
        free(h->t); h->t = nt; h->cap = nc;
    }
    size_t j = k & (h->cap - 1);
    while (h->t[j]) { if (h->t[j] == k) return 0; j = (j + 1) & (h->cap - 1); }
    h->t[j] = k; h->n++;
    return 1;
}

static void exhaustive(uint32_t cap, int64_t state_limit) {
    sim_t s; sim_init(&s, cap);
    size_t rec = sizeof(state_hdr_t) + cap;
    size_t qcap = 1 << 12, qn = 0, qi = 0;
    uint8_t *queue = malloc(qcap * rec);
    hset_t seen = {0};
#define SAVE(dst) do { state_hdr_t *hh = (state_hdr_t *) (dst); hh->q = s.q; hh->sh = s.sh; memcpy((uint8_t *) (dst) + sizeof(state_hdr_t), s.mem + GUARD, cap); } while (0)
#define LOAD(src) do { const state_hdr_t *hh = (const state_hdr_t *) (src); s.q = hh->q; s.q.buf = s.mem + GUARD; s.sh = hh->sh; memcpy(s.mem + GUARD, (const uint8_t *) (src) + sizeof(state_hdr_t), cap); } while (0)
    SAVE(queue); qn = 1; hset_add(&seen, state_key(&s));
    uint8_t *cur = malloc(rec);
    int64_t transitions = 0; int bad = 0, truncated = 0;
    while (qi < qn && !bad) {
        memcpy(cur, queue + qi * rec, rec); ++qi;
        for (uint32_t op = 0; op <= cap + 5 && !bad; ++op) {
            LOAD(cur);
            if (op <= cap) bad = do_alloc(&s, op);
            else if (op == cap + 1) bad = do_pop(&s, 0);
            else if (op == cap + 2) { bad = do_pop(&s, 1); }
            else { static const uint32_t huge[] = {0xfffffff8u, 0xfffffffcu, 0xffffffffu}; bad = do_alloc(&s, huge[op - cap - 3]); }   /* sizes whose +4/+8 wrap around 32 bits */
            ++transitions;
            if (bad) break;
            if (s.sh.n >= MAXITEMS - 2) continue;
            if (hset_add(&seen, state_key(&s))) {
                if ((int64_t) qn >= state_limit) { truncated = 1; continue; }
                if (qn == qcap) { qcap *= 2; queue = realloc(queue, qcap * rec); }
                SAVE(queue + qn * rec); ++qn;
            }
        }
    }
    v_count("C08", "exhaustive_states", (int64_t) qn);
    v_count("C08", "exhaustive_transitions", transitions);
    v_count("C08", "wraps_observed", s.wraps);
    v_feature("C08", qn > 10, "exhaustive|capacity=%u|complete=%d", cap, !truncated && !bad);
    if (truncated) v_note("C08", "capacity %u: state limit %lld reached, exploration truncated", cap, (long long) state_limit);
    else v_count("C08", "capacities_explored_completely", 1);
    free(queue); free(cur); free(seen.t); free(s.mem);
}

/* ------------------------------ random sequences ------------------------------------ */
static void random_run(uint64_t idx, int thorough) {
    rng_t r; rng_seed(&r, vmix(g_seed, idx ^ 0xC08));
    static const uint32_t caps[] = {64, 65, 100, 127, 128, 255, 256, 1000, 1024, 4096, 65536};
    uint32_t cap = RNG_PICK(&r, caps);
    if (rng_chance(&r, 1, 3)) cap = (uint32_t) rng_range(&r, 49, 5000);
    sim_t s; sim_init(&s, cap);
    int64_t nops = thorough ? 100000 : 20000;
    int bias = (int) rng_below(&r, 4);
    int bad = 0;
    int64_t emptied = 0;
    for (int64_t k = 0; k < nops && !bad; ++k) {
        int do_a = bias == 0 ? rng_chance(&r, 1, 2) : bias == 1 ? rng_chance(&r, 2, 3) : bias == 2 ? rng_chance(&r, 1, 3) : ((k / 50) & 1);
        if (s.sh.n >= MAXITEMS - 3) do_a = 0;
        if (do_a) {
            uint32_t size;
            switch (rng_below(&r, 8)) {
                case 0: size = 0; break;
                case 1: size = 1; break;
                case 2: size = cap - (uint32_t) rng_below(&r, 17); break;             /* within 16 of capacity */
                case 3: size = (uint32_t) rng_below(&r, cap / 2 + 1); break;
                case 4: size = cap / 2 + (uint32_t) rng_range(&r, -8, 8); break;
                case 6: size = rng_chance(&r, 1, 8) ? 0xffffffffu - (uint32_t) rng_below(&r, 16) : (uint32_t) rng_below(&r, cap / 8 + 2); break;   /* sizes whose +4/+8 wrap around 32 bits */
                default: size = (uint32_t) rng_below(&r, cap / 8 + 2); break;
            }
            bad = do_alloc(&s, size);
        } else bad = do_pop(&s, rng_chance(&r, 1, 5));
        /* once emptied, any message up to the usable capacity can be allocated again */
        if (!bad && s.sh.n == 0 && rng_chance(&r, 1, 8)) {
            uint32_t size = cap - 16 - (uint32_t) rng_below(&r, 4);
            bad = do_alloc(&s, size);
            if (!bad && s.sh.n == 0) { char wj[300]; witness(&s, wj, sizeof(wj), "alloc-after-empty", size); v_violation("C08", "alloc-fail-after-empty", wj, "after emptying a %u-byte queue a %u-byte message cannot be allocated", cap, size); bad = 1; }
            if (!bad) { bad = do_pop(&s, 0); ++emptied; }
        }
    }
    v_count("C08", "random_ops", s.ops);
    v_count("C08", "allocs_ok", s.allocs_ok);
    v_count("C08", "allocs_failed_legitimately", s.allocs_fail);
    v_count("C08", "pops", s.pops);
    v_count("C08", "wraps_observed", s.wraps);
    v_count("C08", "refill_after_empty", emptied);
    v_feature("C08", s.wraps > 0, "random|capacity=%s|bias=%d", cap < 128 ? "<128" : cap < 1024 ? "<1k" : cap < 8192 ? "<8k" : "64k", bias);
    if ((idx & 7) == 0) { char wj[128]; snprintf(wj, sizeof(wj), "{\"capacity\":%u,\"ops\":%lld,\"wraps\":%lld,\"max_reserve_at_failure\":%lld}", cap, (long long) s.ops, (long long) s.wraps, (long long) s.fail_reserve_max); v_sample("C08", wj); }
    free(s.mem);
}

typedef struct { int thorough; int cap_lo, cap_hi; } ctx_t;

static void run_case(uint64_t idx, void *vctx) {
    ctx_t *c = vctx;
    int ncap = c->cap_hi - c->cap_lo + 1;
    if ((int64_t) idx < ncap) exhaustive((uint32_t) (c->cap_lo + (int) idx), c->thorough ? 6000000 : 1500000);
    else random_run(idx - (uint64_t) ncap, c->thorough);
}

int main(int argc, char **argv) {
    v_init(argc, argv);
    ctx_t c = {.thorough = (int) v_arg_i(argc, argv, "--thorough", 0)};
    c.cap_lo = (int) v_arg_i(argc, argv, "--cap-lo", 8);
    c.cap_hi = (int) v_arg_i(argc, argv, "--cap-hi", c.thorough ? 40 : 24);
    g_check = "mrb";
    run_opts_t ro = {.cpu_s = 600, .wall_s = 1800, .no_fork = v_has_arg(argc, argv, "--no-fork")};
    uint64_t first = (uint64_t) v_arg_i(argc, argv, "--first", 0), count = (uint64_t) v_arg_i(argc, argv, "--count", 20), stride = (uint64_t) v_arg_i(argc, argv, "--stride", 1);
    return v_run_cases(run_case, &c, first, count, stride, &ro) ? 2 : 0;
}
