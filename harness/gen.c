#include "gen.h"
#include "jls/core.h"
#include <stdlib.h>
#include <string.h>

const char *DEF_CLASS_NAME[DEF_CLASS_COUNT] = {"defaults", "minimal", "small", "medium", "bigblock", "tinylevels"};
const char *PART_NAME[PART_COUNT] = {"one-call", "singles", "small", "blockish", "random", "whole-blocks", "odd"};
const char *FIRST_NAME[6] = {"zero", "one", "seven", "large", "negative-small", "negative-large"};
const char *LEN_NAME[8] = {"tiny", "sub-block", "block-edge", "blocks-partial", "level1-edge", "level2-edge", "level3-edge", "random"};

void gen_def(rng_t *r, struct jls_signal_def_s *d, uint16_t signal_id, uint16_t source_id, const dtype_t *t, int cls) {
    memset(d, 0, sizeof(*d));
    d->signal_id = signal_id;
    d->source_id = source_id;
    d->signal_type = JLS_SIGNAL_TYPE_FSR;
    d->data_type = t->code;
    static const uint32_t rates[] = {1, 10, 1000, 48000, 1000000, 2000000, 1000000000};
    d->sample_rate = RNG_PICK(r, rates);
    /* fixed-point exponent q (bits 16..23 of the data type) on integer types: storage, summaries' entry size and
     * every reader result are those of the base type */
    if (t->kind != 2 && rng_chance(r, 1, 6)) d->data_type |= (uint32_t) rng_range(r, 1, 30) << 16;
    switch (cls) {
        case DEF_DEFAULTS: break;
        case DEF_MINIMAL:
            d->samples_per_data = 10; d->sample_decimate_factor = 10; d->entries_per_summary = 10; d->summary_decimate_factor = 10;
            break;
        case DEF_SMALL:
            d->sample_decimate_factor = (uint32_t) rng_range(r, 1, 200);
            d->samples_per_data = (uint32_t) rng_range(r, 1, 3000);
            d->entries_per_summary = (uint32_t) rng_range(r, 1, 300);
            d->summary_decimate_factor = (uint32_t) rng_range(r, 1, 30);
            break;
        case DEF_MEDIUM:
            d->sample_decimate_factor = (uint32_t) rng_range(r, 10, 1000);
            d->samples_per_data = (uint32_t) rng_range(r, 100, 20000);
            d->entries_per_summary = (uint32_t) rng_range(r, 10, 2000);
            d->summary_decimate_factor = (uint32_t) rng_range(r, 10, 100);
            break;
        case DEF_BIGBLOCK: {
            /* one block larger than 1 MiB (the reader's initial buffer), at most ~3 MiB */
            uint64_t bytes = (uint64_t) rng_range(r, (1 << 20) + 1, 3 << 20);
            d->samples_per_data = (uint32_t) (bytes * 8 / (uint64_t) t->bits);
            d->sample_decimate_factor = (uint32_t) rng_range(r, 100, 5000);
            d->entries_per_summary = (uint32_t) rng_range(r, 100, 4000);
            d->summary_decimate_factor = 10;
            break;
        }
        case DEF_TINYLEVELS:
            /* many levels with few samples: smallest factors */
            d->samples_per_data = (uint32_t) rng_range(r, 10, 64);
            d->sample_decimate_factor = 10;
            d->entries_per_summary = (uint32_t) rng_range(r, 10, 40);
            d->summary_decimate_factor = (uint32_t) rng_range(r, 10, 12);
            break;
        default: break;
    }
    static const uint32_t dec[] = {0, 2, 3, 4, 7, 10, 100, 1};   /* 1 is below the minimum of 2 and is raised by the library */
    d->annotation_decimate_factor = RNG_PICK(r, dec);
    d->utc_decimate_factor = RNG_PICK(r, dec);
}

void def_normalised(const struct jls_signal_def_s *in, struct jls_signal_def_s *out) {
    *out = *in;
    jls_core_signal_def_align(out);
}

int64_t def_level_span(const struct jls_signal_def_s *n, int level) {
    int64_t s = (int64_t) n->entries_per_summary * n->sample_decimate_factor;
    for (int k = 2; k <= level; ++k) s *= n->summary_decimate_factor;
    return s;
}

size_t gen_partition(rng_t *r, int cls, int64_t first, int64_t n, uint32_t spd, span_t **out) {
    size_t cap = 64, cnt = 0;
    span_t *a = malloc(cap * sizeof(span_t));
    int64_t pos = 0;
    if (!spd) spd = 1000;
    /* keep the op count bounded */
    int64_t min_chunk = n / 4000 + 1;
    while (pos < n) {
        int64_t c;
        switch (cls) {
            case PART_ONE: c = n; break;
            case PART_SINGLES: c = min_chunk > 1 ? min_chunk : 1; break;
            case PART_SMALL: { static const int s[] = {1, 3, 7, 8, 9, 15, 16, 17}; c = RNG_PICK(r, s) * min_chunk; break; }
            case PART_BLOCKISH: { int64_t k = rng_range(r, 1, 3); c = k * spd + rng_range(r, -1, 1); break; }
            case PART_WHOLEBLOCKS: c = (int64_t) spd * rng_range(r, 1, 3); break;
            case PART_ODD: c = 2 * rng_range(r, min_chunk, spd + min_chunk) + 1; break;
            default: c = rng_range(r, min_chunk, 2 * (int64_t) spd + min_chunk); break;
        }
        if (c < 1) c = 1;
        if (c > n - pos) c = n - pos;
        if (c > 0x7fffffff) c = 0x7fffffff;
        if (cnt == cap) { cap *= 2; a = realloc(a, cap * sizeof(span_t)); }
        a[cnt].sid = first + pos; a[cnt].n = (uint32_t) c;
        ++cnt;
        pos += c;
    }
    *out = a;
    return cnt;
}

int64_t gen_first_id(rng_t *r, int *cls) {
    int c = (int) rng_below(r, 6);
    if (rng_chance(r, 1, 3)) c = 0;
    if (cls) *cls = c;
    switch (c) {
        case 0: return 0;
        case 1: return 1;
        case 2: return 7;
        case 3: return 100000000LL + rng_range(r, 0, 1000);
        case 4: return -5;
        default: return -1000000 - rng_range(r, 0, 1000);
    }
}

int64_t gen_length(rng_t *r, const struct jls_signal_def_s *nm, int64_t budget, int *cls) {
    int64_t spd = nm->samples_per_data, sdf = nm->sample_decimate_factor;
    int64_t n;
    int c = (int) rng_below(r, 8);
    for (int tries = 0; tries < 4; ++tries) {
        switch (c) {
            case 0: n = rng_range(r, 1, 12); break;
            case 1: n = rng_range(r, 1, spd); break;
            case 2: { static const int d[] = {-1, 0, 1}; n = spd * rng_range(r, 1, 4) + RNG_PICK(r, d); if (rng_chance(r, 1, 3)) n = sdf * rng_range(r, 1, 5) + RNG_PICK(r, d); break; }
            case 3: n = spd * rng_range(r, 1, 12) + rng_range(r, 1, spd - 1 > 0 ? spd - 1 : 1); break;
            case 4: case 5: case 6: {
                int lvl = c - 3;
                int64_t span = def_level_span(nm, lvl);
                int64_t k = rng_range(r, 1, 3);
                static const int sel[] = {0, 1, 2, 3};
                switch (RNG_PICK(r, sel)) {
                    case 0: n = k * span; break;
                    case 1: n = k * span + rng_range(r, 1, sdf); break;
                    case 2: n = k * span + spd + rng_range(r, 0, spd); break;
                    default: n = k * span - rng_range(r, 1, spd); break;
                }
                break;
            }
            default: n = rng_range(r, 1, budget); break;
        }
        if (n >= 1 && n <= budget) break;
        c = c > 4 ? c - 1 : (int) rng_below(r, 4);   /* too large: step down a level */
        n = 0;
    }
    if (n < 1 || n > budget) { n = rng_range(r, 1, budget < 4 * spd ? budget : 4 * spd); c = 7; }
    if (cls) *cls = c;
    return n;
}

void prog_interleave(prog_t *p, rng_t *r, op_t **lists, size_t *counts, size_t nl) {
    size_t pos[64] = {0};
    size_t remaining = 0;
    for (size_t i = 0; i < nl; ++i) remaining += counts[i];
    while (remaining) {
        size_t pick = (size_t) rng_below(r, nl);
        for (size_t k = 0; k < nl; ++k) {
            size_t i = (pick + k) % nl;
            if (pos[i] < counts[i]) {
                /* take a small run from this list */
                size_t run = (size_t) rng_range(r, 1, 4);
                while (run-- && pos[i] < counts[i]) {
                    op_t *o = prog_add(p, lists[i][pos[i]].kind);
                    uint64_t uid = o->uid;
                    *o = lists[i][pos[i]];
                    o->uid = uid;
                    o->rc = -999;
                    pos[i]++; remaining--;
                }
                break;
            }
        }
    }
}
