#define _GNU_SOURCE
#include "coop.h"
#include "vcommon.h"
#include <pthread.h>
#include <semaphore.h>
#include <stdio.h>
#include <stdlib.h>
#include <string.h>
#include <time.h>
#include <errno.h>
#include <unistd.h>
#include <sched.h>

const char *POL_NAME[POL_COUNT] = {"random", "pct", "starve-consumer", "starve-producer", "round-robin"};

int __real_pthread_create(pthread_t *, const pthread_attr_t *, void *(*)(void *), void *);
int __real_pthread_join(pthread_t, void **);
int __real_pthread_mutex_lock(pthread_mutex_t *);
int __real_pthread_mutex_unlock(pthread_mutex_t *);
int __real_pthread_cond_wait(pthread_cond_t *, pthread_mutex_t *);
int __real_pthread_cond_signal(pthread_cond_t *);
int __real_nanosleep(const struct timespec *, struct timespec *);
int __real_clock_gettime(clockid_t, struct timespec *);
int __real_pthread_mutex_init(pthread_mutex_t *, const pthread_mutexattr_t *);
int __real_pthread_mutex_destroy(pthread_mutex_t *);
int __real_pthread_cond_init(pthread_cond_t *, const pthread_condattr_t *);
int __real_pthread_cond_destroy(pthread_cond_t *);

enum { ST_FREE = 0, ST_RUNNABLE, ST_MUTEX, ST_COND, ST_SLEEP, ST_JOIN, ST_FINISHED };
static const char *ST_NAME[] = {"free", "runnable", "mutex_lock", "cond_wait", "sleep", "join", "finished"};

#define MAXT 8
#define MAXM 16
#define MAXHELD 4

typedef struct {
    int state;
    pthread_t th;
    sem_t sem;
    const void *obj;          /* mutex / cond / joined thread slot */
    int64_t wake;
    void *(*fn)(void *);
    void *arg;
    int prio;
    int is_app;               /* created by the harness (application thread) vs. by the library (writer thread) */
    const void *held[MAXHELD];
    int nheld;
    const void *cond_mutex;   /* mutex to re-acquire after cond wake-up */
} cth_t;

static struct {
    int on;
    coop_cfg_t cfg;
    rng_t rng;
    cth_t t[MAXT];
    int nt;
    struct { const void *addr; int owner; } m[MAXM];
    int nm;
    int64_t vclock;
    coop_stats_t st;
    int64_t call_steps;
    const char *call_api;
    int64_t change_points[8];
    int rr;
    int app_creating;         /* next pthread_create comes from the harness */
} G;

static __thread int self_id = -1;
void (*coop_on_stuck)(const char *kind, const char *state);

static unsigned inj_permille, inj_max_us; static __thread uint64_t inj_state; static uint64_t inj_seed;

int coop_active(void) { return G.on; }
int coop_self(void) { return G.on ? self_id : -1; }
int64_t coop_now_ns(void) { return G.vclock; }

const char *coop_thread_name(int id) {
    static char b[4][16]; static int k;
    char *o = b[k++ & 3];
    if (id < 0) return "?";
    snprintf(o, 16, "%s%d", G.t[id].is_app ? "app" : "writer", id);
    return o;
}

int coop_threads_alive(void) {
    int n = 0;
    for (int i = 0; i < G.nt; ++i) if (G.t[i].state != ST_FREE && G.t[i].state != ST_FINISHED) ++n;
    return n;
}
/* managed threads created by the library (the writer thread), not finished */
int coop_library_threads_alive(void) { int n = 0; if (!G.on) return 0; for (int i = 0; i < G.nt; ++i) if (!G.t[i].is_app && G.t[i].state != ST_FREE && G.t[i].state != ST_FINISHED) ++n; return n; }

int coop_held(const void **out, int max) {
    if (!G.on || self_id < 0) return 0;
    int n = G.t[self_id].nheld;
    if (n > max) n = max;
    for (int i = 0; i < n; ++i) out[i] = G.t[self_id].held[i];
    return n;
}

static void describe(char *out, size_t n) {
    size_t k = 0;
    out[0] = 0;
    for (int i = 0; i < G.nt; ++i) {
        if (G.t[i].state == ST_FREE) continue;
        k += (size_t) snprintf(out + k, n - k, "%s%s:%s", k ? "+" : "", G.t[i].is_app ? "app" : "writer", ST_NAME[G.t[i].state]);
        if (k >= n - 24) break;
    }
}

static void stuck(const char *kind) {
    describe(G.st.state, sizeof(G.st.state));
    if (!strcmp(kind, "deadlock")) G.st.deadlock = 1; else G.st.no_progress = 1;
    if (coop_on_stuck) coop_on_stuck(kind, G.st.state);
    fflush(stdout);
    _exit(0);
}

static int find_mutex(const void *addr) {
    for (int i = 0; i < G.nm; ++i) if (G.m[i].addr == addr) return i;
    if (G.nm == MAXM) { fprintf(stderr, "coop: too many mutexes\n"); abort(); }
    G.m[G.nm].addr = addr; G.m[G.nm].owner = -1;
    return G.nm++;
}

static void wake_sleepers(void) {
    for (int i = 0; i < G.nt; ++i) if (G.t[i].state == ST_SLEEP && G.t[i].wake <= G.vclock) G.t[i].state = ST_RUNNABLE;
}

static int64_t next_wake(void) {
    int64_t w = INT64_MAX;
    for (int i = 0; i < G.nt; ++i) if (G.t[i].state == ST_SLEEP && G.t[i].wake < w) w = G.t[i].wake;
    return w;
}

static int pick(void) {
    for (;;) {
        int cand[MAXT], nc = 0;
        for (int i = 0; i < G.nt; ++i) if (G.t[i].state == ST_RUNNABLE) cand[nc++] = i;
        /* time jump: the OS did not schedule the enabled threads before the next timer expired */
        int64_t w = next_wake();
        int fair = G.vclock > G.cfg.unfair_until_ns;
        if (!fair && w != INT64_MAX && nc && G.cfg.time_jump_prob > 0 && rng_unit(&G.rng) < G.cfg.time_jump_prob) {
            if (w > G.vclock) G.vclock = w;
            wake_sleepers();
            G.st.time_jumps++;
            continue;
        }
        if (!nc) {
            if (w == INT64_MAX) {
                if (coop_threads_alive() == 0) return -1;
                stuck("deadlock");
            }
            if (w > G.vclock) G.vclock = w;
            wake_sleepers();
            continue;
        }
        int best = cand[0];
        switch (fair && (G.cfg.policy == POL_STARVE_CONSUMER || G.cfg.policy == POL_STARVE_PRODUCER) ? POL_RANDOM : G.cfg.policy) {
            case POL_RANDOM: best = cand[rng_below(&G.rng, (uint64_t) nc)]; break;
            case POL_ROUND_ROBIN: best = cand[(G.rr++) % nc]; break;
            case POL_PCT:
                for (int i = 1; i < nc; ++i) if (G.t[cand[i]].prio > G.t[best].prio) best = cand[i];
                break;
            case POL_STARVE_CONSUMER: {
                int app[MAXT], na = 0;
                for (int i = 0; i < nc; ++i) if (G.t[cand[i]].is_app) app[na++] = cand[i];
                best = na ? app[rng_below(&G.rng, (uint64_t) na)] : cand[rng_below(&G.rng, (uint64_t) nc)];
                break;
            }
            case POL_STARVE_PRODUCER: {
                int wr[MAXT], nw = 0;
                for (int i = 0; i < nc; ++i) if (!G.t[cand[i]].is_app) wr[nw++] = cand[i];
                best = nw ? wr[rng_below(&G.rng, (uint64_t) nw)] : cand[rng_below(&G.rng, (uint64_t) nc)];
                break;
            }
            default: break;
        }
        return best;
    }
}

static void switch_to(int next) {
    int me = self_id;
    G.st.signature = fnv1a(&next, sizeof(next), G.st.signature ? G.st.signature : FNV_INIT);
    if (next == me) return;
    G.st.switches++;
    sem_post(&G.t[next].sem);
    while (sem_wait(&G.t[me].sem) && errno == EINTR) {}
}

static void count_step(void) {
    G.st.steps++; G.call_steps++;
    if (G.cfg.policy == POL_PCT) {
        for (int i = 0; i < G.cfg.pct_depth && i < 8; ++i) if (G.st.steps == G.change_points[i] && self_id >= 0) G.t[self_id].prio = -(int) G.st.steps;
    }
    if (G.st.steps > G.cfg.max_steps || (G.call_api && G.call_steps > G.cfg.max_steps_per_call)) stuck("no-progress");
}

/* the running thread stays runnable; maybe someone else goes first */
static void sched_point(void) {
    count_step();
    int next = pick();
    if (next >= 0) switch_to(next);
}

/* the running thread cannot continue */
static void block_self(int state, const void *obj) {
    G.t[self_id].state = state; G.t[self_id].obj = obj;
    count_step();
    int next = pick();
    if (next < 0) stuck("deadlock");
    switch_to(next);
}

void coop_begin(const coop_cfg_t *cfg) {
    memset(&G, 0, sizeof(G));
    G.cfg = *cfg;
    if (!G.cfg.max_steps) G.cfg.max_steps = 3000000;
    if (!G.cfg.max_steps_per_call) G.cfg.max_steps_per_call = 400000;
    if (!G.cfg.unfair_until_ns) G.cfg.unfair_until_ns = 41LL * 1000000000LL;
    rng_seed(&G.rng, cfg->seed);
    for (int i = 0; i < 8; ++i) G.change_points[i] = 1 + (int64_t) rng_below(&G.rng, 3000);
    G.nt = 1;
    G.t[0].state = ST_RUNNABLE; G.t[0].is_app = 1; G.t[0].prio = (int) rng_below(&G.rng, 1000) + 1;
    sem_init(&G.t[0].sem, 0, 0);
    G.t[0].th = pthread_self();
    self_id = 0;
    G.vclock = 1000000000LL;   /* 1 s */
    G.on = 1;
}

void coop_end(coop_stats_t *out) {
    G.st.vclock_ns = G.vclock;
    if (out) *out = G.st;
    G.on = 0;
    self_id = -1;
}

/* a blocking system call of a managed thread is a suspension point too */
void coop_preempt(void) { if (G.on && self_id >= 0) sched_point(); }

void coop_call_begin(const char *api) { if (!G.on) return; G.call_api = api; G.call_steps = 0; }
void coop_call_end(void) { if (!G.on) return; G.call_api = NULL; }

/* ---------------------------------------------------------------------------------------- */
static void inject(void) {
    if (!inj_permille) return;
    if (!inj_state) inj_state = vhash64(inj_seed ^ (uint64_t) (uintptr_t) &inj_state);
    inj_state = vhash64(inj_state + 1);
    if ((inj_state % 1000) < inj_permille) {
        unsigned us = (unsigned) ((inj_state >> 20) % (inj_max_us + 1));
        if (us < 2) sched_yield(); else usleep(us);
    }
}
void coop_inject_delays(uint64_t seed, unsigned permille, unsigned max_us) { inj_seed = seed; inj_state = 0; inj_permille = permille; inj_max_us = max_us; }

typedef struct { int slot; } tramp_t;

static void *trampoline(void *p) {
    tramp_t *tp = p;
    int me = tp->slot;
    free(tp);
    self_id = me;
    while (sem_wait(&G.t[me].sem) && errno == EINTR) {}
    void *ret = G.t[me].fn(G.t[me].arg);
    G.t[me].state = ST_FINISHED;
    for (int i = 0; i < G.nt; ++i) if (G.t[i].state == ST_JOIN && G.t[i].obj == &G.t[me]) G.t[i].state = ST_RUNNABLE;
    count_step();
    int next = pick();
    if (next >= 0) { G.st.signature = fnv1a(&next, sizeof(next), G.st.signature); G.st.switches++; sem_post(&G.t[next].sem); }
    return ret;
}

void coop_mark_app_thread(void) { G.app_creating = 1; }

int __wrap_pthread_create(pthread_t *th, const pthread_attr_t *attr, void *(*fn)(void *), void *arg) {
    if (!G.on || self_id < 0) return __real_pthread_create(th, attr, fn, arg);
    if (G.nt == MAXT) return EAGAIN;
    int slot = G.nt++;
    cth_t *t = &G.t[slot];
    memset(t, 0, sizeof(*t));
    t->state = ST_RUNNABLE; t->fn = fn; t->arg = arg;
    t->is_app = G.app_creating; G.app_creating = 0;
    t->prio = (int) rng_below(&G.rng, 1000) + 1;
    sem_init(&t->sem, 0, 0);
    tramp_t *tp = malloc(sizeof(*tp)); tp->slot = slot;
    int rc = __real_pthread_create(&t->th, attr, trampoline, tp);
    if (rc) { t->state = ST_FREE; G.nt--; free(tp); return rc; }
    *th = t->th;
    sched_point();
    return 0;
}

int __wrap_pthread_join(pthread_t th, void **ret) {
    if (!G.on || self_id < 0) return __real_pthread_join(th, ret);
    int slot = -1;
    for (int i = 0; i < G.nt; ++i) if (G.t[i].state != ST_FREE && pthread_equal(G.t[i].th, th)) slot = i;
    if (slot < 0) return __real_pthread_join(th, ret);
    while (G.t[slot].state != ST_FINISHED) block_self(ST_JOIN, &G.t[slot]);
    G.t[self_id].state = ST_RUNNABLE;
    return __real_pthread_join(th, ret);
}

int __wrap_pthread_mutex_lock(pthread_mutex_t *m) {
    if (!G.on || self_id < 0) { inject(); return __real_pthread_mutex_lock(m); }
    sched_point();
    int mi = find_mutex(m);
    while (G.m[mi].owner >= 0) { G.st.mutex_blocks++; block_self(ST_MUTEX, m); }
    G.t[self_id].state = ST_RUNNABLE;
    G.m[mi].owner = self_id;
    if (G.t[self_id].nheld < MAXHELD) G.t[self_id].held[G.t[self_id].nheld++] = m;
    return 0;
}

static void release_mutex(pthread_mutex_t *m) {
    int mi = find_mutex(m);
    G.m[mi].owner = -1;
    cth_t *t = &G.t[self_id];
    for (int i = 0; i < t->nheld; ++i) if (t->held[i] == m) { t->held[i] = t->held[--t->nheld]; break; }
    for (int i = 0; i < G.nt; ++i) if (G.t[i].state == ST_MUTEX && G.t[i].obj == m) G.t[i].state = ST_RUNNABLE;
}

int __wrap_pthread_mutex_unlock(pthread_mutex_t *m) {
    if (!G.on || self_id < 0) { int rc = __real_pthread_mutex_unlock(m); inject(); return rc; }
    release_mutex(m);
    sched_point();
    return 0;
}

int __wrap_pthread_cond_wait(pthread_cond_t *c, pthread_mutex_t *m) {
    if (!G.on || self_id < 0) return __real_pthread_cond_wait(c, m);
    G.st.cond_waits++;
    release_mutex(m);
    block_self(ST_COND, c);
    /* woken by a signal: re-acquire the mutex */
    G.t[self_id].state = ST_RUNNABLE;
    int mi = find_mutex(m);
    while (G.m[mi].owner >= 0) block_self(ST_MUTEX, m);
    G.t[self_id].state = ST_RUNNABLE;
    G.m[mi].owner = self_id;
    if (G.t[self_id].nheld < MAXHELD) G.t[self_id].held[G.t[self_id].nheld++] = m;
    return 0;
}

int __wrap_pthread_cond_signal(pthread_cond_t *c) {
    if (!G.on || self_id < 0) return __real_pthread_cond_signal(c);
    G.st.cond_signals++;
    int w[MAXT], nw = 0;
    for (int i = 0; i < G.nt; ++i) if (G.t[i].state == ST_COND && G.t[i].obj == c) w[nw++] = i;
    if (nw) G.t[w[rng_below(&G.rng, (uint64_t) nw)]].state = ST_RUNNABLE;
    sched_point();
    return 0;
}

int __wrap_nanosleep(const struct timespec *req, struct timespec *rem) {
    if (!G.on || self_id < 0) return __real_nanosleep(req, rem);
    G.st.sleeps++;
    G.t[self_id].wake = G.vclock + (int64_t) req->tv_sec * 1000000000LL + req->tv_nsec;
    block_self(ST_SLEEP, NULL);
    G.t[self_id].state = ST_RUNNABLE;
    if (rem) { rem->tv_sec = 0; rem->tv_nsec = 0; }
    return 0;
}

int __wrap_clock_gettime(clockid_t clk, struct timespec *ts) {
    if (!G.on || self_id < 0) return __real_clock_gettime(clk, ts);
    if (clk == CLOCK_PROCESS_CPUTIME_ID || clk == CLOCK_THREAD_CPUTIME_ID) return __real_clock_gettime(clk, ts);
    G.vclock += 100;   /* reading the clock takes time: no Zeno loops */
    int64_t v = G.vclock + (clk == CLOCK_REALTIME ? 1700000000LL * 1000000000LL : 0);
    ts->tv_sec = v / 1000000000LL; ts->tv_nsec = v % 1000000000LL;
    return 0;
}

int __wrap_pthread_mutex_init(pthread_mutex_t *m, const pthread_mutexattr_t *a) { return __real_pthread_mutex_init(m, a); }
int __wrap_pthread_mutex_destroy(pthread_mutex_t *m) {
    if (G.on) for (int i = 0; i < G.nm; ++i) if (G.m[i].addr == m) { G.m[i] = G.m[--G.nm]; break; }
    return __real_pthread_mutex_destroy(m);
}
int __wrap_pthread_cond_init(pthread_cond_t *c, const pthread_condattr_t *a) { return __real_pthread_cond_init(c, a); }
int __wrap_pthread_cond_destroy(pthread_cond_t *c) { return __real_pthread_cond_destroy(c); }
