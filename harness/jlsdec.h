/*
 * Independent JLS decoder, written from include/jls/format.h and README only.
 * Includes NO jls header and links NO jls object.  Own CRC-32C.
 */
#ifndef JLSDEC_H_
#define JLSDEC_H_
#include <stdint.h>
#include <stddef.h>

#define JD_MAX_ERR 64
#define JD_LEVELS 16

enum { JD_TT_FSR = 0, JD_TT_VSR = 1, JD_TT_ANNO = 2, JD_TT_UTC = 3 };
enum { JD_CK_DEF = 0, JD_CK_HEAD = 1, JD_CK_DATA = 2, JD_CK_INDEX = 3, JD_CK_SUMMARY = 4 };

typedef struct {
    uint64_t off;
    uint64_t next, prev;
    uint8_t tag, rsv;
    uint16_t meta;
    uint32_t plen, pprev;
    const uint8_t *payload;  /* NULL if plen==0 */
    int visited;             /* reached by some list walk */
} jd_chunk_t;

typedef struct {
    char rule[24];   /* short stable id of the rule that failed */
    char msg[232];
} jd_err_t;

typedef struct {
    int present;
    uint16_t id;
    const char *s[5];  /* name vendor model version serial */
} jd_source_t;

typedef struct {
    size_t n, cap;
    size_t *idx;   /* chunk indices in list order */
} jd_list_t;

typedef struct {
    int present;
    uint16_t id, source_id;
    uint8_t signal_type;
    uint32_t data_type, sample_rate, spd, sdf, eps, sumdf, adf, udf;
    const char *name, *units;
    int bits;
    int have_head[4];
    uint64_t head[4][JD_LEVELS];
    size_t head_chunk[4];
    jd_list_t data[4];
    jd_list_t index[4][JD_LEVELS];
    jd_list_t summary[4][JD_LEVELS];
    /* FSR view */
    int64_t fsr_first;        /* timestamp of first DATA chunk */
    int64_t fsr_end;          /* one past the last sample id covered by DATA chunks / level-1 entries */
    int fsr_have;
} jd_signal_t;

typedef struct {
    uint8_t *buf;
    size_t size;
    jd_chunk_t *ch;
    size_t n, cap;
    int closed;             /* END chunk is last & header length matches */
    uint64_t hdr_length;
    jd_err_t err[JD_MAX_ERR];
    int nerr;
    int nerr_total;
    size_t orphans;
    jd_source_t src[256];
    jd_signal_t sig[256];
    jd_list_t sources, signals, user;
    char *strpool; size_t strpool_n, strpool_cap;
} jd_t;

uint32_t jd_crc32c(const uint8_t *p, size_t n);
/* bit-serial reference, no table */
uint32_t jd_crc32c_bitwise(const uint8_t *p, size_t n);

int jd_load(jd_t *d, const char *path);            /* 0 ok */
int jd_load_mem(jd_t *d, const uint8_t *p, size_t n);
void jd_free(jd_t *d);
/* structural rules 1..5 and content extraction; returns number of rule violations */
int jd_decode(jd_t *d);
/* step in samples between entries of a level-L FSR index */
int64_t jd_fsr_step(const jd_signal_t *s, int level);
/* summary storage: 32 or 64 bits per value */
int jd_fsr_summary_bits(uint32_t data_type);
/* find chunk index by offset, (size_t)-1 if no chunk starts there */
size_t jd_find(const jd_t *d, uint64_t off);
/* sample bit access: copy 'n' samples starting at file sample id 'sid' into dst (packed, LSB first).
 * returns 0 ok; 1 = some requested sample lies in an omitted/absent block (dst zero filled there,
 * and *omitted set); -1 = not covered */
int jd_fsr_read(const jd_t *d, const jd_signal_t *s, int64_t sid, int64_t n, uint8_t *dst, int *omitted);
/* is the level-0 block containing sid stored (1), omitted (0) or outside (-1) */
int jd_fsr_block_stored(const jd_t *d, const jd_signal_t *s, int64_t sid);
/* check recorded summaries against the stored samples / lower levels; appends errors; returns count */
int jd_check_summaries(jd_t *d, const jd_signal_t *s);

void jd_err(jd_t *d, const char *rule, const char *fmt, ...);

#endif
