#define _GNU_SOURCE
#include "model.h"
#include "jlsdec.h"
#include "jls/writer.h"
#include "jls/threaded_writer.h"
#include "jls/reader.h"
#include "jls/log.h"
#include "jls/ec.h"
#include <stdlib.h>
#include <string.h>
#include <math.h>
#include <float.h>

/* =====================================================================================
 * data types
 * ===================================================================================== */
const dtype_t DTYPES[15] = {
    {"u1", JLS_DATATYPE_U1, 1, 0}, {"u4", JLS_DATATYPE_U4, 4, 0}, {"i4", JLS_DATATYPE_I4, 4, 1},
    {"u8", JLS_DATATYPE_U8, 8, 0}, {"i8", JLS_DATATYPE_I8, 8, 1}, {"u16", JLS_DATATYPE_U16, 16, 0},
    {"i16", JLS_DATATYPE_I16, 16, 1}, {"u24", JLS_DATATYPE_U24, 24, 0}, {"i24", JLS_DATATYPE_I24, 24, 1},
    {"u32", JLS_DATATYPE_U32, 32, 0}, {"i32", JLS_DATATYPE_I32, 32, 1}, {"u64", JLS_DATATYPE_U64, 64, 0},
    {"i64", JLS_DATATYPE_I64, 64, 1}, {"f32", JLS_DATATYPE_F32, 32, 2}, {"f64", JLS_DATATYPE_F64, 64, 2},
};

const dtype_t *dtype_by_code(uint32_t code) {
    for (int i = 0; i < 15; ++i) if (DTYPES[i].code == (code & 0xffff)) return &DTYPES[i];
    return NULL;
}
const dtype_t *dtype_by_name(const char *name) {
    for (int i = 0; i < 15; ++i) if (!strcmp(DTYPES[i].name, name)) return &DTYPES[i];
    return NULL;
}

static uint64_t get_bits(const uint8_t *p, int64_t bit, int n) {
    uint64_t v = 0;
    if ((bit & 7) == 0 && (n & 7) == 0) {
        for (int k = 0; k < n / 8; ++k) v |= (uint64_t) p[(bit >> 3) + k] << (8 * k);
        return v;
    }
    for (int k = 0; k < n; ++k) v |= (uint64_t) ((p[(bit + k) >> 3] >> ((bit + k) & 7)) & 1) << k;
    return v;
}

static void put_bits(uint8_t *p, int64_t bit, int n, uint64_t v) {
    if ((bit & 7) == 0 && (n & 7) == 0) {
        for (int k = 0; k < n / 8; ++k) p[(bit >> 3) + k] = (uint8_t) (v >> (8 * k));
        return;
    }
    for (int k = 0; k < n; ++k) {
        uint8_t m = (uint8_t) (1u << ((bit + k) & 7));
        if ((v >> k) & 1) p[(bit + k) >> 3] |= m; else p[(bit + k) >> 3] &= (uint8_t) ~m;
    }
}

long double sample_value(const uint8_t *p, int64_t i, const dtype_t *t) {
    uint64_t v = get_bits(p, i * t->bits, t->bits);
    if (t->kind == 2) {
        if (t->bits == 32) { uint32_t u = (uint32_t) v; float f; memcpy(&f, &u, 4); return (long double) f; }
        double d; memcpy(&d, &v, 8); return (long double) d;
    }
    if (t->kind == 1) {
        if (t->bits < 64 && (v >> (t->bits - 1))) return (long double) v - ldexpl(1.0L, t->bits);
        if (t->bits == 64) return (long double) (int64_t) v;
        return (long double) v;
    }
    return (long double) v;
}

int sample_is_finite(const uint8_t *p, int64_t i, const dtype_t *t) {
    if (t->kind != 2) return 1;
    long double v = sample_value(p, i, t);
    return isfinite((double) v);
}

void bits_copy(uint8_t *dst, int64_t db, const uint8_t *src, int64_t sb, int64_t n) {
    if (((db | sb | n) & 7) == 0) { memcpy(dst + (db >> 3), src + (sb >> 3), (size_t) (n >> 3)); return; }
    while (n > 0 && (db & 7)) { put_bits(dst, db, 1, get_bits(src, sb, 1)); ++db; ++sb; --n; }
    while (n >= 8) { dst[db >> 3] = (uint8_t) get_bits(src, sb, 8); db += 8; sb += 8; n -= 8; }
    while (n > 0) { put_bits(dst, db, 1, get_bits(src, sb, 1)); ++db; ++sb; --n; }
}

int bits_equal(const uint8_t *a, int64_t ab, const uint8_t *b, int64_t bb, int64_t n, int64_t *first_diff) {
    int64_t i = 0;
    if (((ab | bb) & 7) == 0) {
        int64_t nb = n >> 3;
        const uint8_t *pa = a + (ab >> 3), *pb = b + (bb >> 3);
        if (!memcmp(pa, pb, (size_t) nb)) i = nb * 8;
        else { for (int64_t k = 0; k < nb; ++k) if (pa[k] != pb[k]) { i = k * 8; break; } }
    }
    for (; i < n; ++i) {
        if (get_bits(a, ab + i, 1) != get_bits(b, bb + i, 1)) { if (first_diff) *first_diff = i; return 0; }
    }
    return 1;
}

/* =====================================================================================
 * programs
 * ===================================================================================== */
void prog_init(prog_t *p) { memset(p, 0, sizeof(*p)); }

void prog_free(prog_t *p) {
    for (size_t i = 0; i < p->nsig; ++i) { free(p->sig[i].name); free(p->sig[i].units); }
    for (size_t i = 0; i < p->nsrc; ++i) for (int k = 0; k < 5; ++k) free(p->src[i].s[k]);
    free(p->ops); free(p->sig); free(p->src);
    memset(p, 0, sizeof(*p));
}

op_t *prog_add(prog_t *p, int kind) {
    if (p->n == p->cap) { p->cap = p->cap ? p->cap * 2 : 64; p->ops = realloc(p->ops, p->cap * sizeof(op_t)); }
    op_t *o = &p->ops[p->n];
    memset(o, 0, sizeof(*o));
    o->kind = (uint8_t) kind;
    o->uid = p->n + 1;
    o->rc = -999;
    p->n++;
    return o;
}

static char *xstrdup(const char *s) { return s ? strdup(s) : NULL; }

int prog_add_source(prog_t *p, uint16_t id, const char *name) {
    if (p->nsrc == p->srccap) { p->srccap = p->srccap ? p->srccap * 2 : 8; p->src = realloc(p->src, p->srccap * sizeof(psrc_t)); }
    psrc_t *s = &p->src[p->nsrc];
    memset(s, 0, sizeof(*s));
    s->def.source_id = id;
    char b[64];
    s->s[0] = xstrdup(name);
    snprintf(b, sizeof(b), "vendor-%u", id); s->s[1] = xstrdup(b);
    snprintf(b, sizeof(b), "model-%u", id); s->s[2] = xstrdup(b);
    s->s[3] = xstrdup("1.2.3");
    snprintf(b, sizeof(b), "sn%05u", id); s->s[4] = xstrdup(b);
    op_t *o = prog_add(p, OP_SOURCE);
    o->id = id; o->def = (int) p->nsrc;
    p->nsrc++;
    return (int) p->n - 1;
}

int prog_add_signal(prog_t *p, const struct jls_signal_def_s *def, const char *name, const char *units, int pattern, uint64_t pseed) {
    if (p->nsig == p->sigcap) { p->sigcap = p->sigcap ? p->sigcap * 2 : 8; p->sig = realloc(p->sig, p->sigcap * sizeof(psig_t)); }
    psig_t *s = &p->sig[p->nsig];
    memset(s, 0, sizeof(*s));
    s->def = *def;
    s->name = xstrdup(name); s->units = xstrdup(units);
    s->pattern = pattern; s->pseed = pseed;
    s->blk = def->samples_per_data ? def->samples_per_data : 1024;
    op_t *o = prog_add(p, OP_SIGNAL);
    o->id = def->signal_id; o->def = (int) p->nsig;
    p->nsig++;
    return (int) p->n - 1;
}

static uint64_t finite_f32_bits(uint64_t h) {
    uint32_t sign = (uint32_t) (h & 1) << 31;
    uint32_t exp = 100 + (uint32_t) ((h >> 1) % 50);
    uint32_t man = (uint32_t) (h >> 16) & 0x7fffff;
    return sign | (exp << 23) | man;
}
static uint64_t finite_f64_bits(uint64_t h) {
    uint64_t sign = (h & 1) << 63;
    uint64_t exp = 1000 + ((h >> 1) % 50);
    uint64_t man = (h >> 8) & 0xfffffffffffffULL;
    return sign | (exp << 52) | man;
}

void gen_samples(const psig_t *ps, uint64_t vseed, int64_t sid, uint32_t n, uint8_t *out) {
    const dtype_t *t = dtype_by_code(ps->def.data_type);
    int bits = t->bits;
    size_t nbytes = ((size_t) n * bits + 7) / 8;
    memset(out, 0, nbytes);
    uint64_t mask = bits == 64 ? ~0ULL : ((1ULL << bits) - 1);
    int64_t blk = ps->blk ? ps->blk : 1024;
    for (uint32_t i = 0; i < n; ++i) {
        int64_t id = sid + i;
        int64_t rel = id - ps->def.sample_id_offset;
        int64_t bidx = rel >= 0 ? rel / blk : -((-rel + blk - 1) / blk);
        uint64_t hb = vmix(ps->pseed, (uint64_t) bidx);
        uint64_t hv = vmix(vseed, (uint64_t) id);
        uint64_t v = 0;
        int pat = ps->pattern;
        int cls = 3;
        if (pat == PAT_BLOCKCONST) cls = (int) (hb % 6);
        /* class 5 (sub-byte types): every BYTE of the block is the same but the samples inside a byte differ
         * (u4: a,b,a,b,...; u1: an 8-sample pattern) - constant for a detector that compares bytes with a wrong reference */
        int byteper = 0; uint8_t bp = 0;
        if (pat == PAT_BLOCKCONST && cls == 5) {
            if (bits < 8) {
                static const uint8_t pb4[] = {0x10, 0x31, 0x73, 0xf5, 0x21, 0x8c, 0x5a}, pb1[] = {0x55, 0xaa, 0x0f, 0x01, 0x80, 0xfe, 0x33};
                bp = bits == 4 ? pb4[(hb >> 16) % 7] : pb1[(hb >> 16) % 7];
                byteper = 1;
            }
            cls = 3;
        }
        if (pat == PAT_LONGZERO) {
            int64_t run = (32768LL * 8 / bits) / blk + 2 + (int64_t) (ps->pseed % 3);
            pat = PAT_BLOCKCONST;
            cls = (bidx >= 2 && bidx < 2 + run) ? 0 : 3;
        }
        /* class 4: constant block except for one to three samples next to its edges (second sample, within the first
         * byte, last sample) - the inputs on which a constant-block detector that skips a byte goes wrong */
        int dev = 0;
        if (pat == PAT_BLOCKCONST && cls == 4) {
            int64_t pos = rel - bidx * blk;
            int which = (int) ((hb >> 16) % 4);
            int64_t p1 = which == 0 ? 1 : which == 1 ? 1 + (int64_t) ((hb >> 24) % 6) : which == 2 ? blk - 1 : blk / 2;
            dev = pos == p1 || (which == 1 && pos == 7 && ((hb >> 40) & 1));
            cls = 2;
        }
        if (pat == PAT_BLOCKCONST && cls != 3) {
            if (t->kind == 2) {
                double c = cls == 0 ? 0.0 : (cls == 1 ? -1.0 : (double) ((int) (hb >> 8) % 200 - 100));
                if (dev) c += 1.0;
                if (bits == 32) { float f = (float) c; uint32_t u; memcpy(&u, &f, 4); v = u; } else { memcpy(&v, &c, 8); }
            } else {
                v = cls == 0 ? 0 : (cls == 1 ? mask : ((hb >> 8) & mask));
                if (cls == 2 && bits > 1 && (v == 0 || v == mask)) v = 5 & mask;
                if (dev) v = (v ^ 1) & mask;
            }
        } else if (pat == PAT_RAMP) {
            if (t->kind == 2) {
                if (bits == 32) { float f = (float) (id % 100000); uint32_t u; memcpy(&u, &f, 4); v = u; } else { double d = (double) id; memcpy(&v, &d, 8); }
            } else v = (uint64_t) id & mask;
        } else if (pat == PAT_OFFSET && bits >= 16) {
            /* a large constant offset with a few LSB of noise: |mean| >> std, the input on which a
             * numerically careless variance cancels */
            uint64_t hs = vmix(ps->pseed, 0x0ff5e7ULL);
            if (t->kind == 2) {
                if (bits == 32) {
                    float f = (float) (8388000.0 + (double) (hs % 500) + (double) ((hv >> 20) % 5));
                    if (hs & 0x10000) f = -f;
                    uint32_t u; memcpy(&u, &f, 4); v = u;
                } else {
                    double d = 1.0e9 * (double) (1 + (hs >> 20) % 1000) + (((double) (hv >> 11) / 9007199254740992.0) * 2.0 - 1.0);
                    if (hs & 0x10000) d = -d;
                    memcpy(&v, &d, 8);
                }
            } else {
                int w = bits > 32 ? 44 : bits;
                int64_t top = (t->kind == 1 ? (1LL << (w - 1)) : (1LL << w)) - 16;
                int64_t val = top - (int64_t) (hs % 1024) + (int64_t) ((hv >> 20) % 7);
                if (t->kind == 1 && (hs & 0x10000)) val = -val;
                v = (uint64_t) val & mask;
            }
        } else if (pat == PAT_WALK || pat == PAT_SMALL || pat == PAT_OFFSET) {
            if (t->kind == 2) {
                double level = pat == PAT_SMALL ? 0.0 : (double) ((int) (hb % 2001) - 1000);
                double noise = ((double) (hv >> 11) / 9007199254740992.0) * 2.0 - 1.0;
                double d = level + noise;
                if (bits == 32) { float f = (float) d; uint32_t u; memcpy(&u, &f, 4); v = u; } else { memcpy(&v, &d, 8); }
            } else if (bits == 1) {
                unsigned p1 = pat == PAT_SMALL ? 128 : (unsigned) (hb % 256);
                v = ((hv >> 20) % 256) < p1;
            } else if (bits == 4) {
                uint64_t base = pat == PAT_SMALL ? 4 : ((hb >> 3) % 12);
                v = (base + ((hv >> 20) % 4)) & 0xf;
                if (t->kind == 1) v = (v - 6) & 0xf;
            } else {
                int w = bits > 32 ? 40 : bits;
                int64_t span = pat == PAT_SMALL ? 8 : (1LL << (w - 2));
                int64_t level = pat == PAT_SMALL ? 0 : (int64_t) (hb % (uint64_t) span);
                int64_t noise = (int64_t) ((hv >> 20) % (uint64_t) (pat == PAT_SMALL ? 7 : ((span / 16) + 1)));
                int64_t val = level + noise;
                if (t->kind == 1) val -= span / 2;
                v = (uint64_t) val & mask;
            }
        } else { /* PAT_RANDOM or non-constant block of BLOCKCONST */
            if (t->kind == 2) {
                if ((hv % 97) == 0 && pat == PAT_RANDOM) v = (hv >> 7) & mask;  /* raw bits: may be NaN/Inf/denormal */
                else v = bits == 32 ? finite_f32_bits(hv) : finite_f64_bits(hv);
            } else v = (hv >> 5) & mask;
        }
        /* rails: now and then exactly the most negative / most positive value of an integer type (a clipping converter) */
        if (t->kind != 2 && bits >= 8 && (pat == PAT_WALK || pat == PAT_RANDOM) && (hv % 89) == 7) {
            uint64_t top = t->kind == 1 ? (1ULL << (bits - 1)) - 1 : mask;          /* max */
            uint64_t bot = t->kind == 1 ? (1ULL << (bits - 1)) : 0;                 /* min (two's complement pattern) */
            if (bits == 64) { top = t->kind == 1 ? 0x7fffffffffffffffULL : ~0ULL; bot = t->kind == 1 ? 0x8000000000000000ULL : 0; }
            v = ((hv >> 9) & 1) ? top : bot;
        }
        if (byteper) {
            int64_t pos = rel - bidx * blk;
            v = bits == 4 ? ((pos & 1) ? (uint64_t) (bp >> 4) : (uint64_t) (bp & 0x0f)) : (uint64_t) ((bp >> (pos & 7)) & 1);
        }
        put_bits(out, (int64_t) i * bits, bits, v);
    }
}

/* the size argument of the threaded writer's annotation / user-data calls: the header says it is ignored for every storage
 * type but BINARY, so for strings the callers pass nothing, too little, the exact size or too much (the buffer is exact) */
uint32_t twr_size_arg(uint8_t stype, uint32_t dsize, uint64_t dseed) {
    if (stype == JLS_STORAGE_TYPE_BINARY) return dsize;
    switch ((dseed >> 7) % 4) {
        case 0: return 0;
        case 1: return 1;
        case 2: return dsize + 1000;
        default: return dsize;
    }
}

uint8_t *gen_payload(uint8_t stype, uint32_t dsize, uint64_t dseed) {
    uint8_t *b = malloc(dsize ? dsize : 1);
    if (!b) return NULL;
    for (uint32_t i = 0; i < dsize; ++i) {
        uint64_t h = vmix(dseed, i / 8);
        uint8_t c = (uint8_t) (h >> (8 * (i % 8)));
        if (stype != JLS_STORAGE_TYPE_BINARY) {
            c = (uint8_t) (0x20 + (c % 0x5f));
            if (stype == JLS_STORAGE_TYPE_JSON && (c == '"' || c == '\\')) c = 'j';
        }
        b[i] = c;
    }
    if (stype != JLS_STORAGE_TYPE_BINARY && dsize) b[dsize - 1] = 0;
    if (stype == JLS_STORAGE_TYPE_BINARY && dsize >= 600 && (dseed & 0xFFF) == PAYLOAD_EMBEDS_CHUNKS) {
        /* a payload that itself holds complete chunk images at 8-byte-aligned positions (a JLS file kept as user data):
         * three user-data chunks, an END chunk, one more user-data chunk - each with consistent header and payload CRC.
         * Whoever looks for chunks by scanning bytes finds them; they are payload, not chunks of this file. */
        uint32_t at = 0;
        for (int k = 0; k < 5; ++k) {
            uint8_t h[32]; memset(h, 0, sizeof(h));
            uint32_t plen = k == 3 ? 0 : 24;
            h[16] = k == 3 ? JLS_TAG_END : JLS_TAG_USER_DATA;
            uint16_t cm = k == 3 ? 0 : (uint16_t) ((0x701 + k) | (JLS_STORAGE_TYPE_BINARY << 12));
            h[18] = (uint8_t) cm; h[19] = (uint8_t) (cm >> 8);
            memcpy(h + 20, &plen, 4);
            uint32_t crc = jd_crc32c(h, 28); memcpy(h + 28, &crc, 4);
            memcpy(b + at, h, 32); at += 32;
            if (plen) {
                uint32_t pcrc = jd_crc32c(b + at, plen);
                memset(b + at + plen, 0, 4);                  /* pad: (24 + 4) % 8 = 4 */
                memcpy(b + at + plen + 4, &pcrc, 4);
                at += plen + 8;
            }
        }
    }
    return b;
}

static const char *opname(int k) {
    switch (k) {
        case OP_SOURCE: return "source"; case OP_SIGNAL: return "signal"; case OP_FSR: return "fsr"; case OP_OMIT: return "omit";
        case OP_ANNO: return "anno"; case OP_UTC: return "utc"; case OP_USER: return "user"; case OP_FLUSH: return "flush";
        default: return "?";
    }
}

void prog_describe(const prog_t *p, jb_t *j, size_t max_ops) {
    char buf[8192]; size_t bn = 0;
    jb_obj_begin(j);
    jb_int(j, "ops", (int64_t) p->n);
    bn += (size_t) snprintf(buf + bn, sizeof(buf) - bn, "[");
    for (size_t i = 0; i < p->nsig && bn < sizeof(buf) - 400; ++i) {
        const psig_t *s = &p->sig[i];
        const dtype_t *dt = dtype_by_code(s->def.data_type);
        bn += (size_t) snprintf(buf + bn, sizeof(buf) - bn, "%s{\"id\":%u,\"type\":\"%s\",\"spd\":%u,\"sdf\":%u,\"eps\":%u,\"sumdf\":%u,\"adf\":%u,\"udf\":%u,\"rate\":%u,\"pattern\":%d,\"first\":%lld}",
                                i ? "," : "", s->def.signal_id, dt ? dt->name : "?", s->def.samples_per_data, s->def.sample_decimate_factor,
                                s->def.entries_per_summary, s->def.summary_decimate_factor, s->def.annotation_decimate_factor, s->def.utc_decimate_factor,
                                s->def.sample_rate, s->pattern, (long long) s->def.sample_id_offset);
    }
    bn += (size_t) snprintf(buf + bn, sizeof(buf) - bn, "]");
    jb_raw(j, "signals", buf);
    bn = 0;
    bn += (size_t) snprintf(buf + bn, sizeof(buf) - bn, "[");
    size_t shown = 0;
    for (size_t i = 0; i < p->n && shown < max_ops && bn < sizeof(buf) - 300; ++i) {
        const op_t *o = &p->ops[i];
        if (o->kind == OP_SOURCE || o->kind == OP_SIGNAL) continue;
        bn += (size_t) snprintf(buf + bn, sizeof(buf) - bn, "%s\"", shown ? "," : "");
        switch (o->kind) {
            case OP_FSR: bn += (size_t) snprintf(buf + bn, sizeof(buf) - bn, "fsr s%u @%lld n=%u", o->id, (long long) o->sid, o->n); break;
            case OP_OMIT: bn += (size_t) snprintf(buf + bn, sizeof(buf) - bn, "omit s%u %u", o->id, o->enable); break;
            case OP_ANNO: bn += (size_t) snprintf(buf + bn, sizeof(buf) - bn, "anno s%u t=%lld sz=%u", o->id, (long long) o->ts, o->dsize); break;
            case OP_UTC: bn += (size_t) snprintf(buf + bn, sizeof(buf) - bn, "utc s%u %lld->%lld", o->id, (long long) o->sid, (long long) o->utc); break;
            case OP_USER: bn += (size_t) snprintf(buf + bn, sizeof(buf) - bn, "user meta=%u sz=%u", o->meta, o->dsize); break;
            default: bn += (size_t) snprintf(buf + bn, sizeof(buf) - bn, "%s", opname(o->kind)); break;
        }
        if (o->rc != 0 && o->rc != -999) bn += (size_t) snprintf(buf + bn, sizeof(buf) - bn, " rc=%d", o->rc);
        bn += (size_t) snprintf(buf + bn, sizeof(buf) - bn, "\"");
        ++shown;
    }
    bn += (size_t) snprintf(buf + bn, sizeof(buf) - bn, "]");
    jb_raw(j, "first_ops", buf);
    jb_obj_end(j);
}

/* =====================================================================================
 * model
 * ===================================================================================== */
void model_init(model_t *m, const prog_t *p) {
    memset(m, 0, sizeof(*m));
    m->p = p;
    m->src_defined[0] = 1;
    m->src_op[0] = -1;
    for (int i = 0; i < 256; ++i) { m->sig_op[i] = -1; if (i) m->src_op[i] = -1; }
    m->sig[0].defined = 1;  /* reserved VSR signal 0 */
}

void model_free(model_t *m) {
    for (int i = 0; i < 256; ++i) { free(m->sig[i].data); free(m->sig[i].gap); free(m->sig[i].omitreq); free(m->sig[i].anno); free(m->sig[i].utc); }
    free(m->user);
    memset(m, 0, sizeof(*m));
}

int64_t msig_length(const msig_t *s) { return s->have ? s->next - s->first : 0; }

static void msig_reserve(msig_t *s, int64_t nsamples) {
    size_t need = ((size_t) nsamples * (size_t) s->dt->bits + 7) / 8 + 8;
    if (need > s->cap) {
        size_t c = s->cap ? s->cap : 4096;
        while (c < need) c *= 2;
        s->data = realloc(s->data, c);
        memset(s->data + s->cap, 0, c - s->cap);
        s->cap = c;
    }
    size_t gneed = (size_t) nsamples / 8 + 8;
    if (gneed > s->gapcap) {
        size_t c = s->gapcap ? s->gapcap : 1024;
        while (c < gneed) c *= 2;
        s->gap = realloc(s->gap, c); memset(s->gap + s->gapcap, 0, c - s->gapcap);
        s->omitreq = realloc(s->omitreq, c); memset(s->omitreq + s->gapcap, 0, c - s->gapcap);
        s->gapcap = c; s->omitcap = c;
    }
}

static void push_idx(size_t **arr, size_t *n, size_t *cap, size_t v) {
    if (*n == *cap) { *cap = *cap ? *cap * 2 : 16; *arr = realloc(*arr, *cap * sizeof(size_t)); }
    (*arr)[(*n)++] = v;
}

void model_apply(model_t *m, size_t oi) {
    const op_t *o = &m->p->ops[oi];
    if (o->rc != 0) return;
    switch (o->kind) {
        case OP_SOURCE: if (o->id < 256) { m->src_defined[o->id] = 1; m->src_op[o->id] = (int) oi; } break;
        case OP_SIGNAL: {
            if (o->id >= 256) break;
            msig_t *s = &m->sig[o->id];
            s->defined = 1;
            s->ps = &m->p->sig[o->def];
            s->dt = dtype_by_code(s->ps->def.data_type);
            s->fsr = s->ps->def.signal_type == JLS_SIGNAL_TYPE_FSR;
            m->sig_op[o->id] = (int) oi;
            break;
        }
        case OP_FSR: {
            msig_t *s = &m->sig[o->id];
            if (!s->defined || !s->fsr || !o->n) break;
            if (!s->have) { s->have = 1; s->first = o->sid; s->next = o->sid; }
            int64_t sid = o->sid; int64_t n = o->n; int64_t skip = 0;
            if (sid > s->next) {
                /* gap: fill */
                int64_t g = sid - s->next;
                msig_reserve(s, s->next - s->first + g + n);
                for (int64_t i = 0; i < g; ++i) {
                    int64_t k = s->next - s->first + i;
                    uint64_t fill = 0;
                    if (s->dt->kind == 2) { if (s->dt->bits == 32) { float f = NAN; uint32_t u; memcpy(&u, &f, 4); fill = u; } else { double d = NAN; memcpy(&fill, &d, 8); } }
                    put_bits(s->data, k * s->dt->bits, s->dt->bits, fill);
                    s->gap[k >> 3] |= (uint8_t) (1u << (k & 7));
                    if (s->omit_state) s->omitreq[k >> 3] |= (uint8_t) (1u << (k & 7));
                }
                s->next = sid;
            } else if (sid < s->next) {
                skip = s->next - sid;
                if (skip >= n) break;
            }
            msig_reserve(s, s->next - s->first + (n - skip));
            size_t nbytes = ((size_t) n * s->dt->bits + 7) / 8;
            uint8_t *tmp = malloc(nbytes + 8);
            gen_samples(s->ps, o->vseed, sid, (uint32_t) n, tmp);
            int64_t k0 = s->next - s->first;
            bits_copy(s->data, k0 * s->dt->bits, tmp, skip * s->dt->bits, (n - skip) * s->dt->bits);
            if (s->omit_state) for (int64_t i = 0; i < n - skip; ++i) s->omitreq[(k0 + i) >> 3] |= (uint8_t) (1u << ((k0 + i) & 7));
            free(tmp);
            s->next += n - skip;
            break;
        }
        case OP_OMIT: { msig_t *s = &m->sig[o->id]; if (s->defined && s->fsr) { s->omit_state = o->enable ? 1 : 0; if (o->enable) s->omit_ever = 1; } break; }
        case OP_ANNO: { msig_t *s = &m->sig[o->id]; if (s->defined) push_idx(&s->anno, &s->nanno, &s->annocap, oi); break; }
        case OP_UTC: { msig_t *s = &m->sig[o->id]; if (s->defined && s->fsr) push_idx(&s->utc, &s->nutc, &s->utccap, oi); break; }
        /* storage type INVALID is the writer's own placeholder: accepted from callers too, stores no item */
        case OP_USER: if (o->stype != JLS_STORAGE_TYPE_INVALID) push_idx(&m->user, &m->nuser, &m->usercap, oi); break;
        default: break;
    }
}

/* =====================================================================================
 * executors
 * ===================================================================================== */
static void log_sink(const char *msg) { (void) msg; }
void jls_quiet(void) { jls_log_register(log_sink); }

static void fill_source(const psrc_t *s, struct jls_source_def_s *d) {
    *d = s->def;
    d->name = s->s[0]; d->vendor = s->s[1]; d->model = s->s[2]; d->version = s->s[3]; d->serial_number = s->s[4];
}
static void fill_signal(const psig_t *s, struct jls_signal_def_s *d) {
    *d = s->def;
    d->name = s->name; d->units = s->units;
}

int32_t exec_op_sync(struct jls_wr_s *wr, const prog_t *p, op_t *o) {
    int32_t rc = 0;
    switch (o->kind) {
        case OP_SOURCE: { struct jls_source_def_s d; fill_source(&p->src[o->def], &d); v_api("jls_wr_source_def"); rc = jls_wr_source_def(wr, &d); break; }
        case OP_SIGNAL: { struct jls_signal_def_s d; fill_signal(&p->sig[o->def], &d); v_api("jls_wr_signal_def"); rc = jls_wr_signal_def(wr, &d); break; }
        case OP_FSR: {
            const psig_t *ps = NULL;
            for (size_t i = 0; i < p->nsig; ++i) if (p->sig[i].def.signal_id == o->id) ps = &p->sig[i];
            const dtype_t *t = ps ? dtype_by_code(ps->def.data_type) : &DTYPES[13];
            size_t nbytes = ((size_t) o->n * t->bits + 7) / 8;
            uint8_t *buf = malloc(nbytes ? nbytes : 1);   /* exactly sized */
            if (ps) gen_samples(ps, o->vseed, o->sid, o->n, buf); else memset(buf, 0, nbytes);
            if (o->via_f32) { v_api("jls_wr_fsr_f32"); rc = jls_wr_fsr_f32(wr, o->id, o->sid, (const float *) buf, o->n); }
            else { v_api("jls_wr_fsr"); rc = jls_wr_fsr(wr, o->id, o->sid, buf, o->n); }
            free(buf);
            break;
        }
        case OP_OMIT: v_api("jls_wr_fsr_omit_data"); rc = jls_wr_fsr_omit_data(wr, o->id, o->enable); break;
        case OP_ANNO: {
            uint8_t *b = gen_payload(o->stype, o->dsize, o->dseed);
            v_api("jls_wr_annotation");
            /* expect_reject 3 = the caller passes no payload although a size is given */
            rc = jls_wr_annotation(wr, o->id, o->ts, o->y, o->atype, o->group, o->stype, o->expect_reject == 3 ? NULL : b, twr_size_arg(o->stype, o->dsize, o->dseed));   /* text: the size argument is ignored, whatever it says */
            free(b);
            break;
        }
        case OP_UTC: v_api("jls_wr_utc"); rc = jls_wr_utc(wr, o->id, o->sid, o->utc); break;
        case OP_USER: {
            uint8_t *b = gen_payload(o->stype, o->dsize, o->dseed);
            v_api("jls_wr_user_data");
            rc = jls_wr_user_data(wr, o->meta, o->stype, o->expect_reject == 3 ? NULL : b, (o->stype == JLS_STORAGE_TYPE_BINARY || o->stype == JLS_STORAGE_TYPE_INVALID) ? o->dsize : twr_size_arg(o->stype, o->dsize, o->dseed));   /* text: "ignored" (writer.h) */
            free(b);
            break;
        }
        case OP_FLUSH: v_api("jls_wr_flush"); rc = jls_wr_flush(wr); break;
        default: break;
    }
    v_api("");
    o->rc = rc;
    return rc;
}

static int32_t exec_op_twr(struct jls_twr_s *wr, const prog_t *p, op_t *o) {
    int32_t rc = 0;
    switch (o->kind) {
        case OP_SOURCE: { struct jls_source_def_s d; fill_source(&p->src[o->def], &d); v_api("jls_twr_source_def"); rc = jls_twr_source_def(wr, &d); break; }
        case OP_SIGNAL: { struct jls_signal_def_s d; fill_signal(&p->sig[o->def], &d); v_api("jls_twr_signal_def"); rc = jls_twr_signal_def(wr, &d); break; }
        case OP_FSR: {
            const psig_t *ps = NULL;
            for (size_t i = 0; i < p->nsig; ++i) if (p->sig[i].def.signal_id == o->id) ps = &p->sig[i];
            const dtype_t *t = ps ? dtype_by_code(ps->def.data_type) : &DTYPES[13];
            size_t nbytes = ((size_t) o->n * t->bits + 7) / 8;
            uint8_t *buf = malloc(nbytes ? nbytes : 1);
            if (ps) gen_samples(ps, o->vseed, o->sid, o->n, buf); else memset(buf, 0, nbytes);
            v_api("jls_twr_fsr"); rc = jls_twr_fsr(wr, o->id, o->sid, buf, o->n);
            free(buf);
            break;
        }
        case OP_OMIT: v_api("jls_twr_fsr_omit_data"); rc = jls_twr_fsr_omit_data(wr, o->id, o->enable); break;
        case OP_ANNO: {
            uint8_t *b = gen_payload(o->stype, o->dsize, o->dseed);
            v_api("jls_twr_annotation");
            rc = jls_twr_annotation(wr, o->id, o->ts, o->y, o->atype, o->group, o->stype, b, twr_size_arg(o->stype, o->dsize, o->dseed));
            free(b);
            break;
        }
        case OP_UTC: v_api("jls_twr_utc"); rc = jls_twr_utc(wr, o->id, o->sid, o->utc); break;
        case OP_USER: {
            uint8_t *b = gen_payload(o->stype, o->dsize, o->dseed);
            v_api("jls_twr_user_data");
            rc = jls_twr_user_data(wr, o->meta, o->stype, b, twr_size_arg(o->stype, o->dsize, o->dseed));
            free(b);
            break;
        }
        case OP_FLUSH: v_api("jls_twr_flush"); rc = jls_twr_flush(wr); break;
        default: break;
    }
    v_api("");
    o->rc = rc;
    return rc;
}

int exec_prog(prog_t *p, model_t *m, const char *path, const exec_opts_t *o) {
    int32_t rc;
    if (o->kind == WR_SYNC) {
        struct jls_wr_s *wr = NULL;
        v_api("jls_wr_open");
        rc = jls_wr_open(&wr, path);
        if (rc) return rc;
        for (size_t i = 0; i < p->n; ++i) {
            if (o->stop_after >= 0 && (int) i >= o->stop_after) break;
            exec_op_sync(wr, p, &p->ops[i]);
            if (o->after_op) o->after_op(i, wr);
            if (m) model_apply(m, i);
        }
        if (o->no_close) return 0;
        v_api("jls_wr_close");
        rc = jls_wr_close(wr);
        v_api("");
        return rc;
    } else {
        struct jls_twr_s *wr = NULL;
        v_api("jls_twr_open");
        rc = jls_twr_open(&wr, path);
        if (rc) return rc;
        if (o->twr_flags) jls_twr_flags_set(wr, o->twr_flags);
        for (size_t i = 0; i < p->n; ++i) {
            if (o->stop_after >= 0 && (int) i >= o->stop_after) break;
            exec_op_twr(wr, p, &p->ops[i]);
            if (m) model_apply(m, i);
        }
        if (o->no_close) return 0;
        v_api("jls_twr_close");
        rc = jls_twr_close(wr);
        v_api("");
        return rc;
    }
}
