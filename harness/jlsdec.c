/*
 * Independent JLS decoder, written from include/jls/format.h and README only.
 * Includes NO jls header and links NO jls object.
 *
 * Facts taken from the writer because format.h leaves them open (listed as
 * assumptions in evidence): field order inside SOURCE_DEF / SIGNAL_DEF payloads,
 * strings terminated by {0, 0x1f}, FSR level-1 index offset 0 == omitted block,
 * FSR DATA payload = payload header + packed samples.
 */
#include "jlsdec.h"
#include <stdio.h>
#include <stdlib.h>
#include <string.h>
#include <stdarg.h>
#include <math.h>
#include <float.h>

static const uint8_t FILE_ID[16] = {0x6a, 0x6c, 0x73, 0x66, 0x6d, 0x74, 0x0d, 0x0a,
                                    0x20, 0x0a, 0x20, 0x1a, 0x20, 0x20, 0xb2, 0x1c};

static uint32_t crc_tab[256];
static int crc_tab_ok;

static void crc_init(void) {
    for (uint32_t i = 0; i < 256; ++i) {
        uint32_t c = i;
        for (int k = 0; k < 8; ++k) {
            c = (c & 1) ? (c >> 1) ^ 0x82F63B78u : (c >> 1);
        }
        crc_tab[i] = c;
    }
    crc_tab_ok = 1;
}

uint32_t jd_crc32c(const uint8_t *p, size_t n) {
    if (!crc_tab_ok) crc_init();
    uint32_t c = 0xFFFFFFFFu;
    for (size_t i = 0; i < n; ++i) c = crc_tab[(c ^ p[i]) & 0xff] ^ (c >> 8);
    return c ^ 0xFFFFFFFFu;
}

uint32_t jd_crc32c_bitwise(const uint8_t *p, size_t n) {
    uint32_t c = 0xFFFFFFFFu;
    for (size_t i = 0; i < n; ++i) {
        c ^= p[i];
        for (int k = 0; k < 8; ++k) c = (c & 1) ? (c >> 1) ^ 0x82F63B78u : (c >> 1);
    }
    return c ^ 0xFFFFFFFFu;
}

static uint16_t rd16(const uint8_t *p) { return (uint16_t) (p[0] | (p[1] << 8)); }
static uint32_t rd32(const uint8_t *p) { return (uint32_t) p[0] | ((uint32_t) p[1] << 8) | ((uint32_t) p[2] << 16) | ((uint32_t) p[3] << 24); }
static uint64_t rd64(const uint8_t *p) { return (uint64_t) rd32(p) | ((uint64_t) rd32(p + 4) << 32); }

void jd_err(jd_t *d, const char *rule, const char *fmt, ...) {
    d->nerr_total++;
    if (d->nerr >= JD_MAX_ERR) return;
    jd_err_t *e = &d->err[d->nerr++];
    snprintf(e->rule, sizeof(e->rule), "%s", rule);
    va_list ap;
    va_start(ap, fmt);
    vsnprintf(e->msg, sizeof(e->msg), fmt, ap);
    va_end(ap);
}

static void list_add(jd_list_t *l, size_t idx) {
    if (l->n == l->cap) {
        l->cap = l->cap ? l->cap * 2 : 8;
        l->idx = realloc(l->idx, l->cap * sizeof(size_t));
    }
    l->idx[l->n++] = idx;
}

int jd_load_mem(jd_t *d, const uint8_t *p, size_t n) {
    memset(d, 0, sizeof(*d));
    d->buf = malloc(n ? n : 1);
    if (!d->buf) return -1;
    memcpy(d->buf, p, n);
    d->size = n;
    return 0;
}

int jd_load(jd_t *d, const char *path) {
    memset(d, 0, sizeof(*d));
    FILE *f = fopen(path, "rb");
    if (!f) return -1;
    fseek(f, 0, SEEK_END);
    long sz = ftell(f);
    fseek(f, 0, SEEK_SET);
    d->buf = malloc(sz > 0 ? (size_t) sz : 1);
    if (!d->buf) { fclose(f); return -1; }
    if (sz > 0 && fread(d->buf, 1, (size_t) sz, f) != (size_t) sz) { fclose(f); free(d->buf); d->buf = NULL; return -1; }
    fclose(f);
    d->size = (size_t) sz;
    return 0;
}

static void free_list(jd_list_t *l) { free(l->idx); l->idx = NULL; l->n = l->cap = 0; }

void jd_free(jd_t *d) {
    free(d->buf);
    free(d->ch);
    free(d->strpool);
    free_list(&d->sources); free_list(&d->signals); free_list(&d->user);
    for (int s = 0; s < 256; ++s) {
        for (int t = 0; t < 4; ++t) {
            free_list(&d->sig[s].data[t]);
            for (int l = 0; l < JD_LEVELS; ++l) { free_list(&d->sig[s].index[t][l]); free_list(&d->sig[s].summary[t][l]); }
        }
    }
    memset(d, 0, sizeof(*d));
}

size_t jd_find(const jd_t *d, uint64_t off) {
    size_t lo = 0, hi = d->n;
    while (lo < hi) {
        size_t mid = (lo + hi) / 2;
        if (d->ch[mid].off == off) return mid;
        if (d->ch[mid].off < off) lo = mid + 1; else hi = mid;
    }
    return (size_t) -1;
}

static size_t disk_len(uint32_t plen) {
    if (!plen) return 0;
    size_t t = (size_t) plen + 4;
    return (t + 7) & ~(size_t) 7;
}

static int is_track_tag(uint8_t tag) { return (tag & 0xE0) == 0x20 && (tag & 7) <= 4; }
static int tag_tt(uint8_t tag) { return (tag >> 3) & 3; }
static int tag_ck(uint8_t tag) { return tag & 7; }

/* rule 1+2: file header and chunk grid */
static void walk_chunks(jd_t *d) {
    if (d->size < 32) { jd_err(d, "R1.filehdr", "file shorter than header: %zu", d->size); return; }
    if (memcmp(d->buf, FILE_ID, 16)) jd_err(d, "R1.filehdr", "identification mismatch");
    d->hdr_length = rd64(d->buf + 16);
    uint32_t ver = rd32(d->buf + 24);
    if ((ver >> 24) != 1) jd_err(d, "R1.filehdr", "version major %u", ver >> 24);
    if (jd_crc32c(d->buf, 28) != rd32(d->buf + 28)) jd_err(d, "R1.filehdr", "file header crc");

    uint64_t off = 32;
    uint32_t prev_plen = 0;
    while (off + 32 <= d->size) {
        const uint8_t *h = d->buf + off;
        if (jd_crc32c(h, 28) != rd32(h + 28)) {
            jd_err(d, "R2.hdrcrc", "chunk header crc at %llu", (unsigned long long) off);
            break;
        }
        jd_chunk_t c;
        memset(&c, 0, sizeof(c));
        c.off = off;
        c.next = rd64(h); c.prev = rd64(h + 8);
        c.tag = h[16]; c.rsv = h[17]; c.meta = rd16(h + 18);
        c.plen = rd32(h + 20); c.pprev = rd32(h + 24);
        size_t dl = disk_len(c.plen);
        if (off + 32 + dl > d->size) {
            jd_err(d, "R2.trunc", "chunk at %llu (tag 0x%02x, plen %u) runs past end of file", (unsigned long long) off, c.tag, c.plen);
            break;
        }
        if (c.plen) {
            c.payload = h + 32;
            uint32_t pc = rd32(h + 32 + dl - 4);
            if (jd_crc32c(c.payload, c.plen) != pc) {
                jd_err(d, "R2.paycrc", "payload crc at %llu tag 0x%02x", (unsigned long long) off, c.tag);
                break;
            }
            for (size_t i = c.plen; i < dl - 4; ++i) {
                if (h[32 + i]) { jd_err(d, "R2.pad", "non-zero pad at %llu", (unsigned long long) off); break; }
            }
        }
        if (c.pprev != prev_plen) {
            jd_err(d, "R2.prevlen", "chunk at %llu tag 0x%02x: payload_prev_length %u, previous payload %u",
                   (unsigned long long) off, c.tag, c.pprev, prev_plen);
        }
        if (c.rsv) jd_err(d, "R2.rsv", "rsv0_u8 nonzero at %llu", (unsigned long long) off);
        if (d->n == d->cap) {
            d->cap = d->cap ? d->cap * 2 : 256;
            d->ch = realloc(d->ch, d->cap * sizeof(jd_chunk_t));
        }
        d->ch[d->n++] = c;
        prev_plen = c.plen;
        off += 32 + dl;
    }
    /* closed? */
    d->closed = 0;
    if (d->n && d->ch[d->n - 1].tag == 0xFF && d->ch[d->n - 1].off + 32 == d->size && off == d->size) {
        if (d->hdr_length == d->size) d->closed = 1;
        else jd_err(d, "R1.length", "file header length %llu != file size %zu", (unsigned long long) d->hdr_length, d->size);
    } else {
        jd_err(d, "R1.closed", "no END chunk at end of file (walk stopped at %llu of %zu, %zu chunks)",
               (unsigned long long) off, d->size, d->n);
    }
    for (size_t i = 0; i + 1 < d->n; ++i) {
        if (d->ch[i].tag == 0xFF) jd_err(d, "R1.end-inside", "END chunk at %llu is not last", (unsigned long long) d->ch[i].off);
    }
}

/* class id for list membership */
static uint32_t chunk_class(const jd_chunk_t *c) {
    if (c->tag == 0x01) return 1;
    if (c->tag == 0x02) return 2;
    if (c->tag == 0x40) return 3;
    if (c->tag == 0xFF) return 4;
    if (is_track_tag(c->tag)) {
        int ck = tag_ck(c->tag);
        if (ck == JD_CK_DEF || ck == JD_CK_HEAD) return 2;
        int lvl = (ck == JD_CK_DATA) ? 0 : (c->meta >> 12);
        return 0x1000000u | ((uint32_t) ck << 20) | ((uint32_t) tag_tt(c->tag) << 16) | ((uint32_t) lvl << 8) | (c->meta & 0xff);
    }
    return 0;
}

static jd_list_t *class_list(jd_t *d, const jd_chunk_t *c) {
    uint32_t k = chunk_class(c);
    if (k == 1) return &d->sources;
    if (k == 2) return &d->signals;
    if (k == 3) return &d->user;
    if (k & 0x1000000u) {
        int ck = tag_ck(c->tag), tt = tag_tt(c->tag), lvl = c->meta >> 12, sg = c->meta & 0xff;
        if (ck == JD_CK_DATA) return &d->sig[sg].data[tt];
        if (ck == JD_CK_INDEX) return &d->sig[sg].index[tt][lvl];
        return &d->sig[sg].summary[tt][lvl];
    }
    return NULL;
}

/* rule 3: doubly linked lists */
/* follow item_next from chunk 'start', appending to list l */
static void follow_list(jd_t *d, jd_list_t *l, size_t start) {
    uint32_t k = chunk_class(&d->ch[start]);
    size_t cur = start;
    for (;;) {
        jd_chunk_t *cc = &d->ch[cur];
        cc->visited = 1;
        list_add(l, cur);
        if (!cc->next) break;
        size_t nx = jd_find(d, cc->next);
        if (nx == (size_t) -1) {
            jd_err(d, "R3.next-target", "item_next of chunk at %llu (tag 0x%02x meta 0x%04x) = %llu is not a chunk start",
                   (unsigned long long) cc->off, cc->tag, cc->meta, (unsigned long long) cc->next);
            break;
        }
        jd_chunk_t *nc = &d->ch[nx];
        if (nx <= cur) { jd_err(d, "R3.next-order", "item_next goes backwards at %llu", (unsigned long long) cc->off); break; }
        if (chunk_class(nc) != k) {
            jd_err(d, "R3.next-class", "item_next of %llu (tag 0x%02x meta 0x%04x) leads to tag 0x%02x meta 0x%04x at %llu",
                   (unsigned long long) cc->off, cc->tag, cc->meta, nc->tag, nc->meta, (unsigned long long) nc->off);
            break;
        }
        if (nc->prev != cc->off) {
            jd_err(d, "R3.mutual", "chunk at %llu (tag 0x%02x meta 0x%04x) item_prev %llu but reached from %llu",
                   (unsigned long long) nc->off, nc->tag, nc->meta, (unsigned long long) nc->prev, (unsigned long long) cc->off);
        }
        cur = nx;
    }
}

/* rule 3, phase A: the lists that start at fixed places (sources, signals incl. track DEF/HEAD, user data) */
static void walk_lists(jd_t *d) {
    for (size_t i = 0; i < d->n; ++i) {
        jd_chunk_t *c = &d->ch[i];
        uint32_t k = chunk_class(c);
        if (k == 0) { jd_err(d, "R0.tag", "unknown tag 0x%02x at %llu", c->tag, (unsigned long long) c->off); continue; }
        if (k == 4) {
            if (c->next || c->prev) jd_err(d, "R3.end-links", "END chunk with links");
            c->visited = 1;
            continue;
        }
        if (is_track_tag(c->tag)) {
            if (c->meta & 0x0f00) jd_err(d, "R0.meta", "chunk_meta reserved bits set at %llu: 0x%04x", (unsigned long long) c->off, c->meta);
            int ck = tag_ck(c->tag);
            if ((ck == JD_CK_DEF || ck == JD_CK_HEAD || ck == JD_CK_DATA) && (c->meta >> 12))
                jd_err(d, "R0.meta", "level bits set on non-level chunk at %llu: 0x%04x", (unsigned long long) c->off, c->meta);
        }
        if (k & 0x1000000u) continue;   /* track DATA/INDEX/SUMMARY lists start from the HEAD tables: phase B */
        if (c->visited) continue;
        /* first unvisited chunk of the class in file order is the list head */
        jd_list_t *l = class_list(d, c);
        if (l->n) { d->orphans++; continue; }   /* the class already has a list: this chunk is not reachable from it */
        if (c->prev) jd_err(d, "R3.head-prev", "first chunk of list (tag 0x%02x meta 0x%04x) at %llu has item_prev %llu",
                            c->tag, c->meta, (unsigned long long) c->off, (unsigned long long) c->prev);
        follow_list(d, l, i);
    }
}

/* rule 3, phase B: per-track lists, starting from the track HEAD tables (parsed by parse_defs) */
static void walk_track_lists(jd_t *d) {
    for (int sg = 0; sg < 256; ++sg) {
        jd_signal_t *s = &d->sig[sg];
        for (int tt = 0; tt < 4; ++tt) {
            if (!s->have_head[tt]) continue;
            for (int l = 0; l < JD_LEVELS; ++l) {
                uint64_t h = s->head[tt][l];
                if (!h) continue;
                size_t hi = jd_find(d, h);
                int want_ck = l == 0 ? JD_CK_DATA : JD_CK_INDEX;
                if (hi == (size_t) -1) { jd_err(d, "R4.head-dangling", "signal %d track %d head[%d]=%llu is not a chunk start", sg, tt, l, (unsigned long long) h); continue; }
                jd_chunk_t *c = &d->ch[hi];
                if (!is_track_tag(c->tag) || tag_tt(c->tag) != tt || tag_ck(c->tag) != want_ck || c->meta != (uint16_t) (sg | (l << 12))) {
                    jd_err(d, "R4.head-wrong", "signal %d track %d head[%d]=%llu leads to tag 0x%02x meta 0x%04x", sg, tt, l, (unsigned long long) h, c->tag, c->meta);
                    continue;
                }
                if (c->prev) jd_err(d, "R4.head-not-first", "signal %d track %d head[%d]=%llu is not the first chunk of its list (item_prev %llu)", sg, tt, l, (unsigned long long) h, (unsigned long long) c->prev);
                jd_list_t *lst = l == 0 ? &s->data[tt] : &s->index[tt][l];
                if (c->visited || lst->n) continue;
                follow_list(d, lst, hi);
                if (l > 0 && hi + 1 < d->n) {
                    /* the summary list starts with the SUMMARY that follows the first INDEX */
                    jd_chunk_t *sc = &d->ch[hi + 1];
                    if (is_track_tag(sc->tag) && tag_tt(sc->tag) == tt && tag_ck(sc->tag) == JD_CK_SUMMARY && sc->meta == c->meta && !sc->visited) {
                        if (sc->prev) jd_err(d, "R3.head-prev", "first SUMMARY of signal %d track %d level %d at %llu has item_prev %llu", sg, tt, l, (unsigned long long) sc->off, (unsigned long long) sc->prev);
                        follow_list(d, &s->summary[tt][l], hi + 1);
                    }
                }
            }
        }
    }
    /* whatever track chunk was not reached is unreferenced */
    for (size_t i = 0; i < d->n; ++i) if (!d->ch[i].visited && (chunk_class(&d->ch[i]) & 0x1000000u)) d->orphans++;
    /* a chunk whose item_prev names a chunk that does not point back */
    for (size_t i = 0; i < d->n; ++i) {
        jd_chunk_t *c = &d->ch[i];
        if (!c->prev || c->tag == 0xFF) continue;
        if (!c->visited) continue;   /* unreachable chunk (counted in d->orphans): its own back pointer is not part of any list */
        size_t p = jd_find(d, c->prev);
        if (p == (size_t) -1) {
            jd_err(d, "R3.prev-target", "item_prev of chunk at %llu = %llu is not a chunk start", (unsigned long long) c->off, (unsigned long long) c->prev);
        } else if (d->ch[p].next != c->off) {
            jd_err(d, "R3.mutual-prev", "chunk at %llu (tag 0x%02x meta 0x%04x) item_prev %llu whose item_next is %llu",
                   (unsigned long long) c->off, c->tag, c->meta, (unsigned long long) c->prev, (unsigned long long) d->ch[p].next);
        } else if (chunk_class(&d->ch[p]) != chunk_class(c)) {
            jd_err(d, "R3.prev-class", "item_prev of %llu leads to a chunk of another list", (unsigned long long) c->off);
        }
    }
}

static char *pool_str(jd_t *d, const uint8_t *p, size_t n) {
    if (d->strpool_n + n + 1 > d->strpool_cap) {
        /* never realloc (pointers are handed out): allocate once, large */
        return NULL;
    }
    char *r = d->strpool + d->strpool_n;
    memcpy(r, p, n);
    r[n] = 0;
    d->strpool_n += n + 1;
    return r;
}

/* parse a {.., 0, 0x1f} string; returns bytes consumed or 0 on error */
static size_t parse_str(jd_t *d, const uint8_t *p, size_t n, const char **out) {
    size_t i = 0;
    while (i < n && p[i]) ++i;
    if (i >= n) return 0;
    *out = pool_str(d, p, i);
    ++i;
    if (i < n && p[i] == 0x1f) ++i;
    else return 0;
    return i;
}

static int dt_valid(uint32_t dt, int *bits) {
    uint32_t base = dt & 0x0f, size = (dt >> 8) & 0xff;
    *bits = (int) size;
    switch (base) {
        case 1: return size == 4 || size == 8 || size == 16 || size == 24 || size == 32 || size == 64;
        case 3: return size == 1 || size == 4 || size == 8 || size == 16 || size == 24 || size == 32 || size == 64;
        case 4: return size == 32 || size == 64;
        default: return 0;
    }
}

static void parse_defs(jd_t *d) {
    d->strpool_cap = d->size + 4096;
    d->strpool = malloc(d->strpool_cap);
    d->strpool_n = 0;
    for (size_t k = 0; k < d->sources.n; ++k) {
        jd_chunk_t *c = &d->ch[d->sources.idx[k]];
        if (c->meta >= 256) { jd_err(d, "R6.source-id", "source id %u", c->meta); continue; }
        jd_source_t *s = &d->src[c->meta];
        if (s->present) { jd_err(d, "R6.source-dup", "source %u defined twice", c->meta); continue; }
        if (c->plen < 64) { jd_err(d, "R6.source-payload", "source %u payload %u", c->meta, c->plen); continue; }
        for (int i = 0; i < 64; ++i) if (c->payload[i]) { jd_err(d, "R6.source-rsv", "source %u reserved bytes nonzero", c->meta); break; }
        size_t p = 64;
        int ok = 1;
        for (int i = 0; i < 5; ++i) {
            size_t u = parse_str(d, c->payload + p, c->plen - p, &s->s[i]);
            if (!u) { jd_err(d, "R6.source-str", "source %u string %d malformed", c->meta, i); ok = 0; break; }
            p += u;
        }
        if (ok && p != c->plen) jd_err(d, "R6.source-len", "source %u: %zu payload bytes used of %u", c->meta, p, c->plen);
        s->present = ok;
        s->id = c->meta;
    }
    for (size_t k = 0; k < d->signals.n; ++k) {
        size_t ci = d->signals.idx[k];
        jd_chunk_t *c = &d->ch[ci];
        if (c->tag == 0x02) {
            if (c->meta >= 256) { jd_err(d, "R6.signal-id", "signal id %u", c->meta); continue; }
            jd_signal_t *s = &d->sig[c->meta];
            if (s->present) { jd_err(d, "R6.signal-dup", "signal %u defined twice", c->meta); continue; }
            if (c->plen < 128 + 4) { jd_err(d, "R6.signal-payload", "signal %u payload %u", c->meta, c->plen); continue; }
            const uint8_t *p = c->payload;
            s->id = c->meta;
            s->source_id = rd16(p); s->signal_type = p[2];
            s->data_type = rd32(p + 4); s->sample_rate = rd32(p + 8);
            s->spd = rd32(p + 12); s->sdf = rd32(p + 16); s->eps = rd32(p + 20); s->sumdf = rd32(p + 24);
            s->adf = rd32(p + 28); s->udf = rd32(p + 32);
            for (int i = 36; i < 128; ++i) if (p[i]) { jd_err(d, "R6.signal-rsv", "signal %u reserved bytes nonzero", c->meta); break; }
            if (p[3]) jd_err(d, "R6.signal-rsv", "signal %u reserved byte nonzero", c->meta);
            size_t q = 128;
            size_t u = parse_str(d, p + q, c->plen - q, &s->name);
            if (!u) { jd_err(d, "R6.signal-str", "signal %u name malformed", c->meta); continue; }
            q += u;
            u = parse_str(d, p + q, c->plen - q, &s->units);
            if (!u) { jd_err(d, "R6.signal-str", "signal %u units malformed", c->meta); continue; }
            q += u;
            if (q != c->plen) jd_err(d, "R6.signal-len", "signal %u: %zu payload bytes used of %u", c->meta, q, c->plen);
            if (!dt_valid(s->data_type, &s->bits)) jd_err(d, "R6.signal-dt", "signal %u data type 0x%08x", c->meta, s->data_type);
            if (s->signal_type > 1) jd_err(d, "R6.signal-type", "signal %u type %u", c->meta, s->signal_type);
            if (s->source_id >= 256 || !d->src[s->source_id].present) {
                /* the source definition must precede; sources list was parsed already */
                jd_err(d, "R6.signal-source", "signal %u names undefined source %u", c->meta, s->source_id);
            }
            s->present = 1;
        } else {
            int tt = tag_tt(c->tag), ck = tag_ck(c->tag);
            int sg = c->meta & 0xff;
            jd_signal_t *s = &d->sig[sg];
            if (!s->present) { jd_err(d, "R6.track-nosignal", "track chunk tag 0x%02x for undefined signal %d", c->tag, sg); continue; }
            if ((s->signal_type == 0 && tt == JD_TT_VSR) || (s->signal_type == 1 && (tt == JD_TT_FSR || tt == JD_TT_UTC)))
                jd_err(d, "R6.track-type", "track type %d on signal %d of type %d", tt, sg, s->signal_type);
            if (ck == JD_CK_DEF) {
                if (c->plen) jd_err(d, "R6.trackdef-payload", "track def with payload %u", c->plen);
            } else {
                if (c->plen != 128) { jd_err(d, "R4.head-size", "track head payload %u", c->plen); continue; }
                if (s->have_head[tt]) { jd_err(d, "R4.head-dup", "signal %d track %d has two HEAD chunks", sg, tt); continue; }
                s->have_head[tt] = 1;
                s->head_chunk[tt] = ci;
                for (int l = 0; l < JD_LEVELS; ++l) s->head[tt][l] = rd64(c->payload + 8 * l);
            }
        }
    }
}

int64_t jd_fsr_step(const jd_signal_t *s, int level) {
    if (level <= 1) return s->spd;
    int64_t st = (int64_t) s->eps * s->sdf;
    for (int k = 3; k <= level; ++k) st *= s->sumdf;
    return st;
}

int jd_fsr_summary_bits(uint32_t dt) {
    uint32_t base = dt & 0x0f, size = (dt >> 8) & 0xff;
    if (size == 64) return 64;
    if (size == 32 && base != 4) return 64;  /* i32/u32 */
    return 32;
}

static int64_t pay_ts(const jd_chunk_t *c) { return (int64_t) rd64(c->payload); }
static uint32_t pay_cnt(const jd_chunk_t *c) { return rd32(c->payload + 8); }
static uint16_t pay_esb(const jd_chunk_t *c) { return rd16(c->payload + 12); }

/* rules 4 and 5 */
static void check_tracks(jd_t *d) {
    for (int sg = 0; sg < 256; ++sg) {
        jd_signal_t *s = &d->sig[sg];
        for (int tt = 0; tt < 4; ++tt) {
            int any = s->data[tt].n > 0;
            for (int l = 0; l < JD_LEVELS; ++l) any |= (s->index[tt][l].n > 0) | (s->summary[tt][l].n > 0);
            if (!any && !s->have_head[tt]) continue;
            if (any && !s->present) { jd_err(d, "R6.data-nosignal", "track %d data for undefined signal %d", tt, sg); continue; }
            if (any && !s->have_head[tt]) { jd_err(d, "R4.head-absent", "signal %d track %d has chunks but no HEAD", sg, tt); continue; }
            /* head table entries were validated while the lists were built (walk_track_lists) */
            if (s->summary[tt][0].n || s->index[tt][0].n) jd_err(d, "R5.level0", "signal %d track %d has level-0 index/summary", sg, tt);
            /* payload headers of DATA chunks */
            for (size_t k = 0; k < s->data[tt].n; ++k) {
                jd_chunk_t *c = &d->ch[s->data[tt].idx[k]];
                if (c->plen < 16) { jd_err(d, "R5.data-payload", "DATA chunk at %llu payload %u", (unsigned long long) c->off, c->plen); continue; }
                if (tt == JD_TT_FSR) {
                    uint32_t cnt = pay_cnt(c);
                    if (pay_esb(c) != s->bits) jd_err(d, "R5.data-esb", "FSR DATA at %llu entry_size_bits %u for %d-bit signal", (unsigned long long) c->off, pay_esb(c), s->bits);
                    uint64_t need = 16 + ((uint64_t) cnt * s->bits + 7) / 8;
                    if (c->plen != need) jd_err(d, "R5.data-len", "FSR DATA at %llu payload %u, entries %u need %llu", (unsigned long long) c->off, c->plen, cnt, (unsigned long long) need);
                    if (cnt == 0 || cnt > s->spd) jd_err(d, "R5.data-count", "FSR DATA at %llu entry_count %u (samples_per_data %u)", (unsigned long long) c->off, cnt, s->spd);
                } else if (tt == JD_TT_UTC) {
                    if (c->plen != 24 || pay_cnt(c) != 1) jd_err(d, "R5.utc-data", "UTC DATA at %llu malformed", (unsigned long long) c->off);
                } else if (tt == JD_TT_ANNO) {
                    if (c->plen < 28) { jd_err(d, "R5.anno-data", "annotation DATA at %llu payload %u", (unsigned long long) c->off, c->plen); continue; }
                    uint32_t dsz = rd32(c->payload + 24);
                    /* strings/JSON are stored with the writer's {0,0x1f} terminator: one byte beyond data_size */
                    int strterm = (c->payload[17] == 2 || c->payload[17] == 3) && c->plen == 28 + (uint64_t) dsz + 1 && c->payload[c->plen - 1] == 0x1f;
                    if (c->plen != 28 + (uint64_t) dsz && !strterm) jd_err(d, "R5.anno-len", "annotation DATA at %llu payload %u data_size %u", (unsigned long long) c->off, c->plen, dsz);
                }
            }
            for (int l = 1; l < JD_LEVELS; ++l) {
                const jd_list_t *il = &s->index[tt][l], *sl = &s->summary[tt][l];
                if (il->n != sl->n) jd_err(d, "R5.pairs", "signal %d track %d level %d: %zu INDEX vs %zu SUMMARY chunks", sg, tt, l, il->n, sl->n);
                for (size_t k = 0; k < sl->n; ++k) {
                    size_t ci = sl->idx[k];
                    if (ci == 0 || chunk_class(&d->ch[ci - 1]) != ((chunk_class(&d->ch[ci]) & ~(7u << 20)) | ((uint32_t) JD_CK_INDEX << 20)))
                        jd_err(d, "R5.summary-alone", "SUMMARY at %llu not preceded by its INDEX", (unsigned long long) d->ch[ci].off);
                }
                for (size_t k = 0; k < il->n; ++k) {
                    size_t ci = il->idx[k];
                    jd_chunk_t *ic = &d->ch[ci];
                    if (ic->plen < 16) { jd_err(d, "R5.index-payload", "INDEX at %llu payload %u", (unsigned long long) ic->off, ic->plen); continue; }
                    jd_chunk_t *sc = (ci + 1 < d->n) ? &d->ch[ci + 1] : NULL;
                    int paired = sc && is_track_tag(sc->tag) && tag_ck(sc->tag) == JD_CK_SUMMARY && tag_tt(sc->tag) == tt && sc->meta == ic->meta;
                    if (!paired) {
                        jd_err(d, "R5.index-summary", "INDEX at %llu (signal %d track %d level %d) not immediately followed by its SUMMARY", (unsigned long long) ic->off, sg, tt, l);
                    } else if (sc->plen < 16) {
                        jd_err(d, "R5.summary-payload", "SUMMARY at %llu payload %u", (unsigned long long) sc->off, sc->plen); paired = 0;
                    } else if (pay_ts(sc) != pay_ts(ic)) {
                        jd_err(d, "R5.pair-ts", "INDEX at %llu timestamp %lld, SUMMARY timestamp %lld", (unsigned long long) ic->off, (long long) pay_ts(ic), (long long) pay_ts(sc));
                    }
                    uint32_t cnt = pay_cnt(ic);
                    int64_t its = pay_ts(ic);
                    if (tt == JD_TT_FSR) {
                        if (pay_esb(ic) != 64) jd_err(d, "R5.index-esb", "FSR INDEX at %llu entry_size_bits %u", (unsigned long long) ic->off, pay_esb(ic));
                        if (ic->plen != 16 + 8 * (uint64_t) cnt) { jd_err(d, "R5.index-len", "FSR INDEX at %llu payload %u entries %u", (unsigned long long) ic->off, ic->plen, cnt); continue; }
                        if (cnt == 0) jd_err(d, "R5.index-empty", "FSR INDEX at %llu has no entries", (unsigned long long) ic->off);
                        int64_t step = jd_fsr_step(s, l);
                        for (uint32_t e = 0; e < cnt; ++e) {
                            uint64_t eo = rd64(ic->payload + 16 + 8 * e);
                            if (eo == 0) {
                                if (l != 1) jd_err(d, "R5.index-zero", "FSR INDEX level %d at %llu entry %u is 0", l, (unsigned long long) ic->off, e);
                                continue;
                            }
                            size_t ti = jd_find(d, eo);
                            if (ti == (size_t) -1) { jd_err(d, "R5.index-target", "FSR INDEX level %d at %llu entry %u -> %llu not a chunk", l, (unsigned long long) ic->off, e, (unsigned long long) eo); continue; }
                            jd_chunk_t *tc = &d->ch[ti];
                            int want_ck = (l == 1) ? JD_CK_DATA : JD_CK_INDEX;
                            uint16_t want_meta = (uint16_t) (sg | ((l == 1 ? 0 : (l - 1)) << 12));
                            if (!is_track_tag(tc->tag) || tag_tt(tc->tag) != JD_TT_FSR || tag_ck(tc->tag) != want_ck || tc->meta != want_meta) {
                                jd_err(d, "R5.index-kind", "FSR INDEX level %d at %llu entry %u -> tag 0x%02x meta 0x%04x", l, (unsigned long long) ic->off, e, tc->tag, tc->meta);
                                continue;
                            }
                            if (tc->plen >= 16 && pay_ts(tc) != its + (int64_t) e * step)
                                jd_err(d, "R5.index-ts", "FSR INDEX level %d at %llu (ts %lld) entry %u -> chunk ts %lld, expected %lld", l, (unsigned long long) ic->off,
                                       (long long) its, e, (long long) pay_ts(tc), (long long) (its + (int64_t) e * step));
                        }
                        if (paired) {
                            int sb = jd_fsr_summary_bits(s->data_type);
                            uint32_t scnt = pay_cnt(sc);
                            if (pay_esb(sc) != 4 * sb) jd_err(d, "R5.summary-esb", "FSR SUMMARY at %llu entry_size_bits %u (expected %d)", (unsigned long long) sc->off, pay_esb(sc), 4 * sb);
                            else if (sc->plen != 16 + (uint64_t) scnt * 4 * (sb / 8)) jd_err(d, "R5.summary-len", "FSR SUMMARY at %llu payload %u entries %u", (unsigned long long) sc->off, sc->plen, scnt);
                            if (scnt > s->eps) jd_err(d, "R5.summary-count", "FSR SUMMARY at %llu entries %u > entries_per_summary %u", (unsigned long long) sc->off, scnt, s->eps);
                        }
                    } else {
                        if (pay_esb(ic) != 128) jd_err(d, "R5.index-esb", "TS INDEX at %llu entry_size_bits %u", (unsigned long long) ic->off, pay_esb(ic));
                        if (ic->plen != 16 + 16 * (uint64_t) cnt) { jd_err(d, "R5.index-len", "TS INDEX at %llu payload %u entries %u", (unsigned long long) ic->off, ic->plen, cnt); continue; }
                        if (cnt == 0) jd_err(d, "R5.index-empty", "TS INDEX at %llu has no entries", (unsigned long long) ic->off);
                        { uint32_t df = tt == JD_TT_UTC ? s->udf : s->adf;   /* the definition's decimation factor is the capacity of an index chunk */
                          if (df && cnt > df) jd_err(d, "R5.ts-index-count", "TS INDEX at %llu holds %u entries, the signal definition says decimate factor %u", (unsigned long long) ic->off, cnt, df); }
                        if (cnt && (int64_t) rd64(ic->payload + 16) != its) jd_err(d, "R5.index-ts0", "TS INDEX at %llu header ts %lld != first entry", (unsigned long long) ic->off, (long long) its);
                        for (uint32_t e = 0; e < cnt; ++e) {
                            int64_t ets = (int64_t) rd64(ic->payload + 16 + 16 * e);
                            uint64_t eo = rd64(ic->payload + 24 + 16 * e);
                            size_t ti = jd_find(d, eo);
                            if (ti == (size_t) -1) { jd_err(d, "R5.index-target", "TS INDEX level %d at %llu entry %u -> %llu not a chunk", l, (unsigned long long) ic->off, e, (unsigned long long) eo); continue; }
                            jd_chunk_t *tc = &d->ch[ti];
                            int want_ck = (l == 1) ? JD_CK_DATA : JD_CK_INDEX;
                            uint16_t want_meta = (uint16_t) (sg | ((l == 1 ? 0 : (l - 1)) << 12));
                            if (!is_track_tag(tc->tag) || tag_tt(tc->tag) != tt || tag_ck(tc->tag) != want_ck || tc->meta != want_meta) {
                                jd_err(d, "R5.index-kind", "TS INDEX level %d at %llu entry %u -> tag 0x%02x meta 0x%04x", l, (unsigned long long) ic->off, e, tc->tag, tc->meta);
                                continue;
                            }
                            if (tc->plen >= 16 && pay_ts(tc) != ets)
                                jd_err(d, "R5.index-ts", "TS INDEX level %d at %llu entry %u ts %lld -> chunk ts %lld", l, (unsigned long long) ic->off, e, (long long) ets, (long long) pay_ts(tc));
                        }
                        if (paired) {
                            uint32_t scnt = pay_cnt(sc);
                            if (scnt != cnt) jd_err(d, "R5.ts-counts", "TS INDEX at %llu entries %u, SUMMARY entries %u", (unsigned long long) ic->off, cnt, scnt);
                            if (pay_esb(sc) != 128) jd_err(d, "R5.summary-esb", "TS SUMMARY at %llu entry_size_bits %u", (unsigned long long) sc->off, pay_esb(sc));
                            else if (sc->plen != 16 + 16 * (uint64_t) scnt) jd_err(d, "R5.summary-len", "TS SUMMARY at %llu payload %u entries %u", (unsigned long long) sc->off, sc->plen, scnt);
                            else {
                                for (uint32_t e = 0; e < scnt && e < cnt; ++e) {
                                    int64_t sts = (int64_t) rd64(sc->payload + 16 + 16 * e);
                                    int64_t ets = (int64_t) rd64(ic->payload + 16 + 16 * e);
                                    if (sts != ets) { jd_err(d, "R5.ts-dup", "TS SUMMARY at %llu entry %u timestamp %lld != index %lld", (unsigned long long) sc->off, e, (long long) sts, (long long) ets); break; }
                                }
                            }
                        }
                    }
                }
            }
            /* FSR data stream shape */
            if (tt == JD_TT_FSR && s->data[tt].n) {
                int64_t prev_ts = 0; uint32_t prev_cnt = 0;
                for (size_t k = 0; k < s->data[tt].n; ++k) {
                    jd_chunk_t *c = &d->ch[s->data[tt].idx[k]];
                    if (c->plen < 16) continue;
                    int64_t ts = pay_ts(c);
                    if (k == 0) { s->fsr_first = ts; s->fsr_have = 1; }
                    else {
                        if (ts <= prev_ts || (s->spd && ((ts - s->fsr_first) % s->spd))) jd_err(d, "R5.data-grid", "FSR DATA at %llu timestamp %lld off the block grid (first %lld, block %u)", (unsigned long long) c->off, (long long) ts, (long long) s->fsr_first, s->spd);
                        if (prev_cnt != s->spd) jd_err(d, "R5.data-partial", "FSR DATA before %llu is partial (%u of %u) but not last", (unsigned long long) c->off, prev_cnt, s->spd);
                    }
                    prev_ts = ts; prev_cnt = pay_cnt(c);
                    s->fsr_end = ts + prev_cnt;
                }
            }
        }
    }
}

int jd_decode(jd_t *d) {
    walk_chunks(d);
    walk_lists(d);
    parse_defs(d);
    walk_track_lists(d);
    check_tracks(d);
    return d->nerr_total;
}

/* ---- content access ---- */

static const jd_chunk_t *fsr_block(const jd_t *d, const jd_signal_t *s, int64_t sid) {
    const jd_list_t *l = &s->data[JD_TT_FSR];
    size_t lo = 0, hi = l->n;
    while (lo < hi) {
        size_t mid = (lo + hi) / 2;
        const jd_chunk_t *c = &d->ch[l->idx[mid]];
        int64_t ts = pay_ts(c);
        if (sid < ts) hi = mid;
        else if (sid >= ts + (int64_t) pay_cnt(c)) lo = mid + 1;
        else return c;
    }
    return NULL;
}

int jd_fsr_block_stored(const jd_t *d, const jd_signal_t *s, int64_t sid) {
    if (!s->fsr_have) return -1;
    return fsr_block(d, s, sid) ? 1 : 0;
}

int jd_fsr_read(const jd_t *d, const jd_signal_t *s, int64_t sid, int64_t n, uint8_t *dst, int *omitted) {
    int bits = s->bits;
    memset(dst, 0, (size_t) ((n * bits + 7) / 8));
    if (omitted) *omitted = 0;
    int64_t done = 0;
    while (done < n) {
        const jd_chunk_t *c = fsr_block(d, s, sid + done);
        if (!c) {
            if (omitted) *omitted = 1;
            /* skip to next block boundary */
            int64_t rel = (sid + done - s->fsr_first) % s->spd;
            if (rel < 0) rel += s->spd;
            int64_t skip = s->spd - rel;
            if (skip > n - done) skip = n - done;
            done += skip;
            continue;
        }
        int64_t ts = pay_ts(c);
        int64_t cnt = pay_cnt(c);
        int64_t i0 = sid + done - ts;
        int64_t m = cnt - i0;
        if (m > n - done) m = n - done;
        const uint8_t *src = c->payload + 16;
        if (bits >= 8) {
            memcpy(dst + done * (bits / 8), src + i0 * (bits / 8), (size_t) (m * (bits / 8)));
        } else {
            for (int64_t k = 0; k < m; ++k) {
                int64_t sb = (i0 + k) * bits, db = (done + k) * bits;
                uint8_t v = (uint8_t) ((src[sb >> 3] >> (sb & 7)) & ((1u << bits) - 1));
                dst[db >> 3] |= (uint8_t) (v << (db & 7));
            }
        }
        done += m;
    }
    return 0;
}

static long double sample_ld(const uint8_t *p, int64_t i, uint32_t dt) {
    uint32_t base = dt & 0x0f; int bits = (int) ((dt >> 8) & 0xff);
    switch (bits) {
        case 1: return (long double) ((p[i >> 3] >> (i & 7)) & 1);
        case 4: { uint8_t v = (uint8_t) ((p[i >> 1] >> ((i & 1) * 4)) & 0xf); if (base == 1 && (v & 8)) return (long double) ((int) v - 16); return (long double) v; }
        case 8: return base == 1 ? (long double) (int8_t) p[i] : (long double) p[i];
        case 16: { uint16_t v = rd16(p + 2 * i); return base == 1 ? (long double) (int16_t) v : (long double) v; }
        case 24: { uint32_t v = (uint32_t) p[3 * i] | ((uint32_t) p[3 * i + 1] << 8) | ((uint32_t) p[3 * i + 2] << 16); if (base == 1 && (v & 0x800000)) return (long double) ((int32_t) v - 0x1000000); return (long double) v; }
        case 32: { uint32_t v = rd32(p + 4 * i); if (base == 4) { float f; memcpy(&f, &v, 4); return (long double) f; } return base == 1 ? (long double) (int32_t) v : (long double) v; }
        case 64: { uint64_t v = rd64(p + 8 * i); if (base == 4) { double f; memcpy(&f, &v, 8); return (long double) f; } return base == 1 ? (long double) (int64_t) v : (long double) v; }
        default: return 0;
    }
}

static void sum_entry(const jd_chunk_t *sc, int sb, uint32_t e, double out[4]) {
    const uint8_t *p = sc->payload + 16 + (size_t) e * 4 * (sb / 8);
    for (int k = 0; k < 4; ++k) {
        if (sb == 32) { float f; memcpy(&f, p + 4 * k, 4); out[k] = f; }
        else { double f; memcpy(&f, p + 8 * k, 8); out[k] = f; }
    }
}

static int same_or_nan(double a, double b) { return (isnan(a) && isnan(b)) || a == b; }

int jd_check_summaries(jd_t *d, const jd_signal_t *s) {
    int before = d->nerr_total;
    if (!s->present || s->signal_type != 0 || !s->sdf) return 0;
    int sb = jd_fsr_summary_bits(s->data_type);
    long double eps_s = (sb == 32) ? ldexpl(1.0L, -24) : ldexpl(1.0L, -53);
    /* level 1 from samples */
    const jd_list_t *sl = &s->summary[JD_TT_FSR][1];
    uint8_t *tmp = malloc((size_t) s->sdf * 8 + 16);
    for (size_t k = 0; k < sl->n; ++k) {
        const jd_chunk_t *sc = &d->ch[sl->idx[k]];
        if (sc->plen < 16 || pay_esb(sc) != 4 * sb) continue;
        uint32_t cnt = pay_cnt(sc);
        if (sc->plen != 16 + (uint64_t) cnt * 4 * (sb / 8)) continue;
        int64_t ts = pay_ts(sc);
        for (uint32_t e = 0; e < cnt; ++e) {
            int64_t sid = ts + (int64_t) e * s->sdf;
            const jd_chunk_t *blk = fsr_block(d, s, sid);
            if (!blk) continue;  /* omitted block: nothing to compare against */
            if (!fsr_block(d, s, sid + s->sdf - 1)) continue;
            int om = 0;
            jd_fsr_read(d, s, sid, s->sdf, tmp, &om);
            if (om) continue;
            long double sum = 0, mn = 0, mx = 0, amax = 0; uint32_t nf = 0;
            for (uint32_t i = 0; i < s->sdf; ++i) {
                long double v = sample_ld(tmp, i, s->data_type);
                if (!isfinite((double) v)) continue;
                if (!nf) { mn = mx = v; } else { if (v < mn) mn = v; if (v > mx) mx = v; }
                sum += v; ++nf;
                if (fabsl(v) > amax) amax = fabsl(v);
            }
            double got[4];
            sum_entry(sc, sb, e, got);
            if (nf == 0) {
                if (!(isnan(got[0]) && isnan(got[2]) && isnan(got[3])))
                    jd_err(d, "R7.sum1-nan", "signal %d level-1 entry at sample %lld: no finite samples but mean %g min %g max %g", s->id, (long long) sid, got[0], got[2], got[3]);
                continue;
            }
            long double mean = sum / nf, var = 0;
            for (uint32_t i = 0; i < s->sdf; ++i) {
                long double v = sample_ld(tmp, i, s->data_type);
                if (!isfinite((double) v)) continue;
                var += (v - mean) * (v - mean);
            }
            var /= nf;
            long double sd = sqrtl(var);
            double emin = (sb == 32) ? (double) (float) mn : (double) mn;
            double emax = (sb == 32) ? (double) (float) mx : (double) mx;
            if (!same_or_nan(got[2], emin) || !same_or_nan(got[3], emax))
                jd_err(d, "R7.sum1-minmax", "signal %d level-1 entry at sample %lld: min/max %g/%g expected %g/%g", s->id, (long long) sid, got[2], got[3], emin, emax);
            long double tol = 4 * eps_s * (amax > 0 ? amax : 1) + (long double) s->sdf * ldexpl(1.0L, -52) * amax;
            if (!(fabsl((long double) got[0] - mean) <= tol))
                jd_err(d, "R7.sum1-mean", "signal %d level-1 entry at sample %lld: mean %.10g expected %.10Lg", s->id, (long long) sid, got[0], mean);
            long double stol = 1e-5L * sd + ldexpl(1.0L, -20) * amax + 4 * eps_s * amax;
            if (!(fabsl((long double) got[1] - sd) <= stol))
                jd_err(d, "R7.sum1-std", "signal %d level-1 entry at sample %lld: std %.10g expected %.10Lg", s->id, (long long) sid, got[1], sd);
        }
    }
    free(tmp);
    /* level N from level N-1 */
    for (int l = 2; l < JD_LEVELS; ++l) {
        const jd_list_t *up = &s->summary[JD_TT_FSR][l], *lo = &s->summary[JD_TT_FSR][l - 1];
        if (!up->n) break;
        int64_t step_lo = s->sdf;
        for (int k = 2; k < l; ++k) step_lo *= s->sumdf;
        int64_t step_up = step_lo * s->sumdf;
        for (size_t k = 0; k < up->n; ++k) {
            const jd_chunk_t *uc = &d->ch[up->idx[k]];
            if (uc->plen < 16 || pay_esb(uc) != 4 * sb) continue;
            uint32_t cnt = pay_cnt(uc);
            if (uc->plen != 16 + (uint64_t) cnt * 4 * (sb / 8)) continue;
            int64_t ts = pay_ts(uc);
            for (uint32_t e = 0; e < cnt; ++e) {
                int64_t sid = ts + (int64_t) e * step_up;
                /* gather sumdf lower entries starting at sid */
                long double sum = 0, mn = 0, mx = 0, amax = 0; uint32_t nf = 0, found = 0;
                double sub[64][4];
                if (s->sumdf > 64) break;
                for (uint32_t j = 0; j < s->sumdf; ++j) {
                    int64_t want = sid + (int64_t) j * step_lo;
                    /* locate lower chunk containing 'want' */
                    for (size_t q = 0; q < lo->n; ++q) {
                        const jd_chunk_t *lc = &d->ch[lo->idx[q]];
                        if (lc->plen < 16 || pay_esb(lc) != 4 * sb) continue;
                        int64_t lts = pay_ts(lc); uint32_t lcnt = pay_cnt(lc);
                        if (want >= lts && want < lts + (int64_t) lcnt * step_lo && ((want - lts) % step_lo) == 0) {
                            sum_entry(lc, sb, (uint32_t) ((want - lts) / step_lo), sub[found]);
                            ++found;
                            break;
                        }
                    }
                }
                if (found != s->sumdf) {
                    jd_err(d, "R7.sumN-src", "signal %d level-%d entry at sample %lld has only %u of %u source entries", s->id, l, (long long) sid, found, s->sumdf);
                    continue;
                }
                for (uint32_t j = 0; j < found; ++j) {
                    if (!isfinite(sub[j][0])) continue;
                    if (!nf) { mn = sub[j][2]; mx = sub[j][3]; } else { if (sub[j][2] < mn) mn = sub[j][2]; if (sub[j][3] > mx) mx = sub[j][3]; }
                    sum += sub[j][0]; ++nf;
                    if (fabsl((long double) sub[j][2]) > amax) amax = fabsl((long double) sub[j][2]);
                    if (fabsl((long double) sub[j][3]) > amax) amax = fabsl((long double) sub[j][3]);
                }
                double got[4];
                sum_entry(uc, sb, e, got);
                if (!nf) {
                    if (!(isnan(got[0]) && isnan(got[2]) && isnan(got[3])))
                        jd_err(d, "R7.sumN-nan", "signal %d level-%d entry at sample %lld: no finite sources but mean %g", s->id, l, (long long) sid, got[0]);
                    continue;
                }
                long double mean = sum / nf, var = 0;
                for (uint32_t j = 0; j < found; ++j) {
                    if (!isfinite(sub[j][0])) continue;
                    long double dm = sub[j][0] - mean;
                    var += (long double) sub[j][1] * sub[j][1] + dm * dm;
                }
                var /= nf;
                long double sd = sqrtl(var);
                double emin = (sb == 32) ? (double) (float) mn : (double) mn;
                double emax = (sb == 32) ? (double) (float) mx : (double) mx;
                if (!same_or_nan(got[2], emin) || !same_or_nan(got[3], emax))
                    jd_err(d, "R7.sumN-minmax", "signal %d level-%d entry at sample %lld: min/max %g/%g expected %g/%g", s->id, l, (long long) sid, got[2], got[3], emin, emax);
                long double tol = 8 * eps_s * (amax > 0 ? amax : 1);
                if (!(fabsl((long double) got[0] - mean) <= tol))
                    jd_err(d, "R7.sumN-mean", "signal %d level-%d entry at sample %lld: mean %.10g expected %.10Lg", s->id, l, (long long) sid, got[0], mean);
                long double stol = 1e-5L * sd + 16 * eps_s * amax;
                if (isfinite((double) sd) && !(fabsl((long double) got[1] - sd) <= stol))
                    jd_err(d, "R7.sumN-std", "signal %d level-%d entry at sample %lld: std %.10g expected %.10Lg", s->id, l, (long long) sid, got[1], sd);
            }
        }
    }
    return d->nerr_total - before;
}
