/*
 * Writer programs, the submission model (what the client handed to the API and what was
 * accepted), executors for the synchronous and the threaded writer, and reader-side
 * verification / canonical dump.  The model never computes anything the way the library
 * does: samples are kept as submitted, statistics oracles are computed in long double.
 */
#ifndef MODEL_H_
#define MODEL_H_
#include "vcommon.h"
#include "jls/format.h"
#include <stdint.h>

/* ---------- data types ---------- */
typedef struct { const char *name; uint32_t code; int bits; int kind; /* 0 uint 1 int 2 float */ } dtype_t;
extern const dtype_t DTYPES[15];
const dtype_t *dtype_by_code(uint32_t code);
const dtype_t *dtype_by_name(const char *name);
long double sample_value(const uint8_t *packed, int64_t i, const dtype_t *t);
int sample_is_finite(const uint8_t *packed, int64_t i, const dtype_t *t);
void bits_copy(uint8_t *dst, int64_t dst_bit, const uint8_t *src, int64_t src_bit, int64_t nbits);
int bits_equal(const uint8_t *a, int64_t a_bit, const uint8_t *b, int64_t b_bit, int64_t nbits, int64_t *first_diff);

/* ---------- programs ---------- */
enum { OP_SOURCE = 1, OP_SIGNAL, OP_FSR, OP_OMIT, OP_ANNO, OP_UTC, OP_USER, OP_FLUSH };
enum { PAT_RANDOM = 0, PAT_WALK, PAT_BLOCKCONST, PAT_RAMP, PAT_SMALL, PAT_OFFSET /* large DC offset, small noise */, PAT_LONGZERO /* a run of constant-zero blocks longer than the writer's 32 KiB fill scratch */ };

typedef struct {
    struct jls_signal_def_s def;   /* as submitted; name/units point into the fields below */
    char *name, *units;            /* NULL = absent */
    int pattern; uint64_t pseed;
    uint32_t blk;                  /* block size used for pattern boundaries (steering only) */
} psig_t;

typedef struct {
    struct jls_source_def_s def;
    char *s[5];
} psrc_t;

typedef struct {
    uint8_t kind;
    uint8_t via_f32;        /* use the _f32 entry point */
    uint16_t id;            /* signal / source id */
    int32_t rc;             /* return code observed */
    uint8_t expect_reject;  /* generator intends this call to be rejected */
    uint8_t thread;         /* issuing application thread (threaded writer) */
    /* FSR */
    int64_t sid; uint32_t n; uint64_t vseed;
    /* omit */
    uint32_t enable;
    /* annotation */
    int64_t ts; float y; uint8_t atype, group, stype; uint32_t dsize; uint64_t dseed;
    /* utc */
    int64_t utc;
    /* user data */
    uint16_t meta;
    /* defs */
    int def;                /* index into sig[] / src[] */
    uint64_t uid;           /* unique id of the message (for exactly-once checks) */
} op_t;

typedef struct {
    op_t *ops; size_t n, cap;
    psig_t *sig; size_t nsig, sigcap;
    psrc_t *src; size_t nsrc, srccap;
} prog_t;

void prog_init(prog_t *p);
void prog_free(prog_t *p);
op_t *prog_add(prog_t *p, int kind);
int prog_add_source(prog_t *p, uint16_t id, const char *name);  /* returns op index */
int prog_add_signal(prog_t *p, const struct jls_signal_def_s *def, const char *name, const char *units, int pattern, uint64_t pseed);
/* fills 'out' (exactly ceil(n*bits/8) bytes) with the samples of an FSR op */
void gen_samples(const psig_t *ps, uint64_t vseed, int64_t sid, uint32_t n, uint8_t *out);
/* payload of annotation / user data op: returns malloc'd buffer of op->dsize bytes (strings incl. NUL) */
uint32_t twr_size_arg(uint8_t stype, uint32_t dsize, uint64_t dseed);
#define PAYLOAD_EMBEDS_CHUNKS 0xE1Bu   /* low 12 bits of a BINARY payload seed (size >= 600): the payload holds complete chunk images */
uint8_t *gen_payload(uint8_t stype, uint32_t dsize, uint64_t dseed);
/* one-line JSON description of a program (bounded) */
void prog_describe(const prog_t *p, jb_t *j, size_t max_ops);

/* ---------- model ---------- */
typedef struct {
    int defined;
    const psig_t *ps;
    const dtype_t *dt;
    int fsr;
    int have; int64_t first, next;
    uint8_t *data; size_t cap;       /* packed samples from 'first' */
    uint8_t *gap; size_t gapcap;     /* bit per sample: gap fill */
    uint8_t *omitreq; size_t omitcap;/* bit per sample: omission was requested when the sample was written */
    int omit_state; int omit_ever;
    size_t *anno; size_t nanno, annocap;   /* op indices */
    size_t *utc; size_t nutc, utccap;
} msig_t;

typedef struct {
    const prog_t *p;
    msig_t sig[256];
    int src_defined[256];
    int src_op[256];
    int sig_op[256];
    size_t *user; size_t nuser, usercap;
} model_t;

void model_init(model_t *m, const prog_t *p);
void model_free(model_t *m);
/* apply op (already executed, op->rc set) to the model; only successful calls change it */
void model_apply(model_t *m, size_t op_index);
int64_t msig_length(const msig_t *s);

/* ---------- executors ---------- */
struct jls_wr_s;
enum { WR_SYNC = 0, WR_THREADED = 1 };
typedef struct {
    int kind;
    int stop_after;        /* -1: run all; else stop (without close) after this many ops */
    int no_close;          /* leave the writer unclosed (process exits) */
    uint32_t twr_flags;
    void (*after_op)(size_t i, struct jls_wr_s *wr);   /* synchronous writer only: called after op i returned */
} exec_opts_t;
/* runs program against a fresh file; fills op->rc; updates model; returns rc of open/close */
int exec_prog(prog_t *p, model_t *m, const char *path, const exec_opts_t *o);
/* one op against an open synchronous writer (used by harnesses that keep the writer) */
struct jls_wr_s;
int32_t exec_op_sync(struct jls_wr_s *wr, const prog_t *p, op_t *op);

/* ---------- verification through the public reader ---------- */
typedef struct {
    const char *prop_len;      /* property charged for length mismatch (C01 / C09 / C15 ...) */
    const char *prop_data;     /* property charged for sample mismatch */
    int windows;               /* number of random windows per signal */
    int check_defs, check_anno, check_utc, check_user, check_stats;
    int stats_requests;
    int max_level;
    int exact_omitted;         /* require exact values also in blocks omitted on request */
    rng_t *rng;
    const char *file_kind;     /* "sync" "twr" "copy" "repaired" for keys */
    const char *prop_stats;    /* property charged for statistics violations (default C02) */
    int errors_ok;             /* an error return from a read / statistics call is an acceptable outcome (C04) */
    const char *fresh_path;    /* when set, one statistics request in fresh_den is made through a reader opened for that request alone:
                                * the first request of a reader meets buffers no earlier request has grown */
    int fresh_den;
    int tolerate_omitted_tail; /* the rounded-down length of a signal whose partial final block was omitted on request is the
                                * C15 known finding; checks whose subject is something else (C06) count it instead of reporting it */
} verify_opts_t;

struct jls_rd_s;
/* returns number of violations reported */
int verify_file(const char *path, const model_t *m, const verify_opts_t *o);
int verify_fsr_signal(struct jls_rd_s *rd, const model_t *m, int sig, const verify_opts_t *o, const void *decoder, int64_t len_override);
int verify_stats_signal(struct jls_rd_s *rd, const model_t *m, int sig, const verify_opts_t *o, int64_t length);
int verify_annotations(struct jls_rd_s *rd, const model_t *m, int sig, const verify_opts_t *o);
int verify_utc(struct jls_rd_s *rd, const model_t *m, int sig, const verify_opts_t *o);
int verify_user_data(struct jls_rd_s *rd, const model_t *m, const verify_opts_t *o);
int verify_defs(struct jls_rd_s *rd, const model_t *m, const verify_opts_t *o);

/* ---------- canonical dump (reader API only) ---------- */
typedef struct {
    int32_t open_rc;
    uint64_t h_sources, h_signals, h_user;
    uint64_t h_len[256], h_samples[256], h_stats[256], h_anno[256], h_utc[256];
    int64_t length[256];
    int present[256];
    uint64_t h_all;
    int errors;        /* reader calls that returned an error */
    /* item counts and (when dump_keep_sequences(1)) the running hash after every item, for prefix comparisons */
    size_t n_anno[256], n_utc[256], n_user;
    uint64_t *seq_anno[256], *seq_utc[256], *seq_user;
} dump_t;
void dump_keep_sequences(int on);
void dump_prefix_lenient(int on);
void prefix_complete_on_success(int on);   /* an iteration that returns 0 must deliver everything (altered closed files that no repair cut short) */
void dump_free(dump_t *d);
/* 'a' (reader view of an unclosed original) must be a prefix of 'b' (its copy), list by list; FSR samples are
 * compared by reading both files.  Differences are reported under 'prop' with keys "<kp>|..." */
int dump_compare_prefix(const dump_t *a, const dump_t *b, const char *path_a, const char *path_b, const char *prop, const char *kp, const uint8_t *skip_fsr);
int dump_file(const char *path, dump_t *d, uint64_t seed);
int dump_reader(struct jls_rd_s *rd, dump_t *d, uint64_t seed);
/* prefix semantics for files reopened after a crash: everything returned must be an unaltered,
 * in-order part of what was submitted; returns number of violations (charged to 'prop') */
int verify_prefix(struct jls_rd_s *rd, const model_t *m, const char *prop, rng_t *r, const char *path, int64_t *lengths_out, const char *kind);
int verify_prefix_ex(struct jls_rd_s *rd, const model_t *m, const char *prop, rng_t *r, const char *path, int64_t *lengths_out, const char *kind, int errors_ok);
/* compares and reports differences as violations of 'prop' with key prefix */
int dump_compare(const dump_t *a, const dump_t *b, const char *prop, const char *keyprefix, const char *what);
/* per-signal mask (256 entries, may be NULL): skip length/samples/statistics comparison for those signals */
void dump_compare_skip_fsr(const uint8_t *mask);

/* ---------- decoder vs model ---------- */
/* structural decode + content comparison against the model; charges C05 (or prop) */
int decode_and_compare(const char *path, const model_t *m, const char *prop, const char *file_kind, int repaired);

void jls_quiet(void);

#endif
