#define _GNU_SOURCE
#include "vcommon.h"
#include <stdlib.h>
#include <string.h>
#include <stdarg.h>
#include <unistd.h>
#include <signal.h>
#include <errno.h>
#include <time.h>
#include <sys/wait.h>
#include <sys/resource.h>
#include <sys/mman.h>
#include <sys/stat.h>
#include <fcntl.h>

uint64_t g_seed = 1;
uint64_t g_case = 0;
uint64_t g_outer_case = 0;   /* nested runs: case index of the enclosing case (used for replay) */
int g_nested = 0;
const char *g_check = "";
static int g_nviol = 0;

uint64_t vhash64(uint64_t x) {
    x += 0x9E3779B97F4A7C15ULL;
    x = (x ^ (x >> 30)) * 0xBF58476D1CE4E5B9ULL;
    x = (x ^ (x >> 27)) * 0x94D049BB133111EBULL;
    return x ^ (x >> 31);
}
uint64_t vmix(uint64_t a, uint64_t b) { return vhash64(a ^ vhash64(b + 0x632BE59BD9B4E019ULL)); }

void rng_seed(rng_t *r, uint64_t seed) {
    for (int i = 0; i < 4; ++i) { seed = vhash64(seed + i); r->s[i] = seed; }
    if (!(r->s[0] | r->s[1] | r->s[2] | r->s[3])) r->s[0] = 1;
}
static inline uint64_t rotl(uint64_t x, int k) { return (x << k) | (x >> (64 - k)); }
uint64_t rng_u64(rng_t *r) {
    uint64_t *s = r->s;
    uint64_t result = rotl(s[1] * 5, 7) * 9, t = s[1] << 17;
    s[2] ^= s[0]; s[3] ^= s[1]; s[1] ^= s[2]; s[0] ^= s[3]; s[2] ^= t; s[3] = rotl(s[3], 45);
    return result;
}
uint64_t rng_below(rng_t *r, uint64_t n) { return n ? rng_u64(r) % n : 0; }
int64_t rng_range(rng_t *r, int64_t lo, int64_t hi) {
    if (hi <= lo) return lo;
    return lo + (int64_t) rng_below(r, (uint64_t) (hi - lo) + 1);
}
int rng_chance(rng_t *r, unsigned num, unsigned den) { return rng_below(r, den) < num; }
double rng_unit(rng_t *r) { return (double) (rng_u64(r) >> 11) / 9007199254740992.0; }

uint64_t fnv1a(const void *p, size_t n, uint64_t h) {
    const uint8_t *b = p;
    for (size_t i = 0; i < n; ++i) { h ^= b[i]; h *= 0x100000001b3ULL; }
    return h;
}

/* ---------- JSON ---------- */
static void jb_need(jb_t *j, size_t n) {
    if (j->n + n + 1 > j->cap) {
        size_t c = j->cap ? j->cap : 256;
        while (c < j->n + n + 1) c *= 2;
        j->b = realloc(j->b, c);
        j->cap = c;
    }
}
static void jb_put(jb_t *j, const char *s, size_t n) { jb_need(j, n); memcpy(j->b + j->n, s, n); j->n += n; j->b[j->n] = 0; }
static void jb_puts(jb_t *j, const char *s) { jb_put(j, s, strlen(s)); }
static void jb_esc(jb_t *j, const char *s, size_t n) {
    jb_puts(j, "\"");
    for (size_t i = 0; i < n; ++i) {
        unsigned char c = (unsigned char) s[i];
        char t[8];
        if (c == '"' || c == '\\') { t[0] = '\\'; t[1] = (char) c; jb_put(j, t, 2); }
        else if (c == '\n') jb_puts(j, "\\n");
        else if (c < 0x20 || c >= 0x7f) { snprintf(t, sizeof(t), "\\u%04x", c); jb_puts(j, t); }
        else jb_put(j, (const char *) &c, 1);
    }
    jb_puts(j, "\"");
}
void jb_init(jb_t *j) { memset(j, 0, sizeof(*j)); j->first = 1; }
void jb_free(jb_t *j) { free(j->b); memset(j, 0, sizeof(*j)); }
void jb_obj_begin(jb_t *j) { jb_puts(j, "{"); j->first = 1; }
void jb_obj_end(jb_t *j) { jb_puts(j, "}"); j->first = 0; }
void jb_key(jb_t *j, const char *k) {
    if (!j->first) jb_puts(j, ",");
    j->first = 0;
    jb_esc(j, k, strlen(k));
    jb_puts(j, ":");
}
void jb_str(jb_t *j, const char *k, const char *v) { jb_key(j, k); jb_esc(j, v ? v : "", v ? strlen(v) : 0); }
void jb_strn(jb_t *j, const char *k, const char *v, size_t n) { jb_key(j, k); jb_esc(j, v, n); }
void jb_int(jb_t *j, const char *k, int64_t v) { char t[32]; snprintf(t, sizeof(t), "%lld", (long long) v); jb_key(j, k); jb_puts(j, t); }
void jb_u64(jb_t *j, const char *k, uint64_t v) { char t[32]; snprintf(t, sizeof(t), "%llu", (unsigned long long) v); jb_key(j, k); jb_puts(j, t); }
void jb_dbl(jb_t *j, const char *k, double v) {
    char t[40];
    if (v != v || v > 1e308 || v < -1e308) snprintf(t, sizeof(t), "\"%g\"", v); else snprintf(t, sizeof(t), "%.17g", v);
    jb_key(j, k); jb_puts(j, t);
}
void jb_raw(jb_t *j, const char *k, const char *raw) { jb_key(j, k); jb_puts(j, raw && *raw ? raw : "null"); }
void jb_fmt(jb_t *j, const char *k, const char *fmt, ...) {
    char t[1024];
    va_list ap; va_start(ap, fmt); vsnprintf(t, sizeof(t), fmt, ap); va_end(ap);
    jb_str(j, k, t);
}
void jb_emit(jb_t *j) {
    jb_puts(j, "\n");
    fwrite(j->b, 1, j->n, stdout);
    j->n = 0; j->first = 1;
}

/* ---------- shared page for crash context ---------- */
typedef struct { char api[96]; char ctx[400]; } shared_t;
static shared_t *g_sh;
static shared_t g_sh_local;
static void sh_init(void) {
    if (g_sh) return;
    void *p = mmap(NULL, 4096, PROT_READ | PROT_WRITE, MAP_SHARED | MAP_ANONYMOUS, -1, 0);
    g_sh = (p == MAP_FAILED) ? &g_sh_local : (shared_t *) p;
    memset(g_sh, 0, sizeof(*g_sh));
}
void v_api(const char *name) { sh_init(); snprintf(g_sh->api, sizeof(g_sh->api), "%s", name ? name : ""); }
void v_ctx(const char *fmt, ...) { sh_init(); va_list ap; va_start(ap, fmt); vsnprintf(g_sh->ctx, sizeof(g_sh->ctx), fmt, ap); va_end(ap); }

/* ---------- records ---------- */
static void rec_head(jb_t *j, const char *t, const char *prop) {
    jb_init(j); jb_obj_begin(j);
    jb_str(j, "t", t); jb_str(j, "p", prop);
}
void v_violation(const char *prop, const char *key, const char *witness_json, const char *fmt, ...) {
    char m[1024];
    va_list ap; va_start(ap, fmt); vsnprintf(m, sizeof(m), fmt, ap); va_end(ap);
    jb_t j; rec_head(&j, "v", prop);
    jb_str(&j, "k", key); jb_str(&j, "m", m);
    jb_str(&j, "check", g_check); jb_u64(&j, "seed", g_seed); jb_u64(&j, "idx", g_case);
    if (witness_json) jb_raw(&j, "w", witness_json);
    jb_obj_end(&j); jb_emit(&j); jb_free(&j);
    fflush(stdout);
    ++g_nviol;
}
int v_violation_count(void) { return g_nviol; }
void v_feature(const char *prop, int nontrivial, const char *fmt, ...) {
    char m[512];
    va_list ap; va_start(ap, fmt); vsnprintf(m, sizeof(m), fmt, ap); va_end(ap);
    jb_t j; rec_head(&j, "f", prop); jb_str(&j, "f", m); jb_int(&j, "nt", nontrivial);
    jb_obj_end(&j); jb_emit(&j); jb_free(&j);
}
/* counters are accumulated per case and flushed once */
#define NCOUNT 96
static struct { char prop[8]; char name[56]; int64_t v; } g_cnt[NCOUNT];
static int g_ncnt;
static void count_emit(const char *prop, const char *name, int64_t v) {
    jb_t j; rec_head(&j, "n", prop); jb_str(&j, "name", name); jb_int(&j, "v", v);
    jb_obj_end(&j); jb_emit(&j); jb_free(&j);
}
void v_count_flush(void) {
    for (int i = 0; i < g_ncnt; ++i) count_emit(g_cnt[i].prop, g_cnt[i].name, g_cnt[i].v);
    g_ncnt = 0;
}
void v_count(const char *prop, const char *name, int64_t v) {
    for (int i = 0; i < g_ncnt; ++i) if (!strcmp(g_cnt[i].prop, prop) && !strcmp(g_cnt[i].name, name)) { g_cnt[i].v += v; return; }
    if (g_ncnt == NCOUNT) v_count_flush();
    snprintf(g_cnt[g_ncnt].prop, sizeof(g_cnt[0].prop), "%s", prop);
    snprintf(g_cnt[g_ncnt].name, sizeof(g_cnt[0].name), "%s", name);
    g_cnt[g_ncnt].v = v;
    g_ncnt++;
}
void v_sample(const char *prop, const char *json) {
    jb_t j; rec_head(&j, "s", prop); jb_u64(&j, "idx", g_case); jb_raw(&j, "s", json);
    jb_obj_end(&j); jb_emit(&j); jb_free(&j);
}
void v_note(const char *prop, const char *fmt, ...) {
    char m[1024];
    va_list ap; va_start(ap, fmt); vsnprintf(m, sizeof(m), fmt, ap); va_end(ap);
    jb_t j; rec_head(&j, "note", prop); jb_str(&j, "m", m); jb_u64(&j, "idx", g_case);
    jb_obj_end(&j); jb_emit(&j); jb_free(&j);
}

/* ---------- scratch ---------- */
static char g_scratch[256] = "";
void v_scratch_set(const char *dir) { snprintf(g_scratch, sizeof(g_scratch), "%s", dir); mkdir(g_scratch, 0700); }
const char *v_scratch(void) {
    if (!g_scratch[0]) {
        snprintf(g_scratch, sizeof(g_scratch), "/dev/shm/jlsverif-%d", (int) getpid());
        mkdir(g_scratch, 0700);
    }
    return g_scratch;
}
const char *v_path(const char *name) {
    static char ring[8][320];
    static int k;
    char *p = ring[k++ & 7];
    snprintf(p, 320, "%s/%s", v_scratch(), name);
    return p;
}

/* ---------- args ---------- */
const char *v_arg(int argc, char **argv, const char *name, const char *dflt) {
    for (int i = 1; i + 1 < argc; ++i) if (!strcmp(argv[i], name)) return argv[i + 1];
    return dflt;
}
int64_t v_arg_i(int argc, char **argv, const char *name, int64_t dflt) {
    const char *s = v_arg(argc, argv, name, NULL);
    return s ? strtoll(s, NULL, 0) : dflt;
}
int v_has_arg(int argc, char **argv, const char *name) {
    for (int i = 1; i < argc; ++i) if (!strcmp(argv[i], name)) return 1;
    return 0;
}
void v_init(int argc, char **argv) {
    g_seed = (uint64_t) v_arg_i(argc, argv, "--seed", 1);
    const char *sc = v_arg(argc, argv, "--scratch", NULL);
    if (sc) v_scratch_set(sc);
    sh_init();
    setvbuf(stdout, NULL, _IOFBF, 1 << 16);
}

/* ---------- case runner ---------- */
static void read_tail(const char *path, char *out, size_t cap) {
    out[0] = 0;
    FILE *f = fopen(path, "rb");
    if (!f) return;
    size_t n = fread(out, 1, cap - 1, f);
    out[n] = 0;
    fclose(f);
}

int v_run_cases(case_fn fn, void *ctx, uint64_t first, uint64_t count, uint64_t stride, const run_opts_t *o) {
    sh_init();
    char errpath[320];
    snprintf(errpath, sizeof(errpath), "%s/stderr.%d.txt", v_scratch(), (int) getpid());
    sigset_t chld, old;
    sigemptyset(&chld); sigaddset(&chld, SIGCHLD);
    sigprocmask(SIG_BLOCK, &chld, &old);
    uint64_t ran = 0;
    if (!stride) stride = 1;
    for (uint64_t k = 0; k < count; ++k) {
        uint64_t idx = first + k * stride;
        g_case = g_nested ? g_outer_case : idx;
        g_sh->api[0] = 0; g_sh->ctx[0] = 0;
        if (o->no_fork) { fn(idx, ctx); v_count_flush(); fflush(stdout); ++ran; continue; }
        int attempt = 0;
    again:
        fflush(stdout);
        pid_t pid = fork();
        if (pid < 0) { perror("fork"); return -1; }
        if (pid == 0) {
            sigprocmask(SIG_SETMASK, &old, NULL);
            if (o->cpu_s) { struct rlimit rl = { (rlim_t) o->cpu_s, (rlim_t) o->cpu_s + 1 }; setrlimit(RLIMIT_CPU, &rl); }
            if (o->as_mb) { struct rlimit rl = { (rlim_t) o->as_mb << 20, (rlim_t) o->as_mb << 20 }; setrlimit(RLIMIT_AS, &rl); }
            struct rlimit core = {0, 0}; setrlimit(RLIMIT_CORE, &core);
            int fd = open(errpath, O_WRONLY | O_CREAT | O_TRUNC, 0600);
            if (fd >= 0) { dup2(fd, 2); close(fd); }
            fn(idx, ctx);
            v_count_flush();
            fflush(stdout);
            _exit(0);
        }
        int st = 0, wall = 0;
        struct timespec to = { o->wall_s ? o->wall_s : 600, 0 };
        for (;;) {
            pid_t w = waitpid(pid, &st, WNOHANG);
            if (w == pid) break;
            int sg = sigtimedwait(&chld, NULL, &to);
            if (sg < 0 && errno == EAGAIN) {
                wall = 1;
                kill(pid, SIGKILL);
                waitpid(pid, &st, 0);
                break;
            }
        }
        ++ran;
        int bad = 0; char how[64] = "";
        if (wall) { bad = 1; snprintf(how, sizeof(how), "wall"); }
        else if (WIFSIGNALED(st)) {
            bad = 1;
            int sg = WTERMSIG(st);
            if (sg == SIGXCPU || sg == SIGKILL) snprintf(how, sizeof(how), "cpu");
            else snprintf(how, sizeof(how), "signal %d", sg);
        } else if (WIFEXITED(st) && WEXITSTATUS(st) != 0) { bad = 1; snprintf(how, sizeof(how), "exit %d", WEXITSTATUS(st)); }
        if (bad) {
            if (wall && attempt == 0) { attempt = 1; goto again; }  /* wall-clock only: re-run once */
            char tail[6000];
            read_tail(errpath, tail, sizeof(tail));
            jb_t j; jb_init(&j); jb_obj_begin(&j);
            jb_str(&j, "t", "x"); jb_str(&j, "check", g_check); jb_u64(&j, "seed", g_seed); jb_u64(&j, "idx", g_nested ? g_outer_case : idx);
            if (g_nested) jb_u64(&j, "inner", idx);
            jb_str(&j, "how", how); jb_str(&j, "api", g_sh->api); jb_str(&j, "ctx", g_sh->ctx); jb_str(&j, "stderr", tail);
            jb_obj_end(&j); jb_emit(&j); jb_free(&j);
        }
    }
    unlink(errpath);
    sigprocmask(SIG_SETMASK, &old, NULL);
    jb_t j; jb_init(&j); jb_obj_begin(&j);
    jb_str(&j, "t", g_nested ? "inner-done" : "done"); jb_u64(&j, "cases", ran);
    jb_obj_end(&j); jb_emit(&j); jb_free(&j);
    fflush(stdout);
    return 0;
}
