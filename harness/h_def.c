/*
 * C16: signal definitions normalise to consistent, stable storage parameters.
 * (1) direct calls of the normaliser over a complete small grid, boundary values and random
 *     32-bit tuples, in forked batches with a CPU limit (the tuple in flight is kept in memory
 *     shared with the supervising parent);
 * (2) through the public API: define -> close -> read back -> define again in a new file.
 */
#define _GNU_SOURCE
#include "vcommon.h"
#include "model.h"
#include "jls/core.h"
#include "jls/writer.h"
#include "jls/reader.h"
#include "jls/ec.h"
#include <stdlib.h>
#include <string.h>
#include <time.h>
#include <unistd.h>

typedef struct { int thorough; } ctx_t;

static const uint32_t GRID[] = {0, 1, 9, 10, 11, 16, 17, 31, 32, 33, 63, 64, 65, 100, 127, 128, 129, 255, 256, 257};
#define NGRID (sizeof(GRID) / sizeof(GRID[0]))

static uint32_t boundary_value(rng_t *r) {
    switch (rng_below(r, 6)) {
        case 0: return GRID[rng_below(r, NGRID)];
        case 1: { uint32_t k = (uint32_t) rng_range(r, 3, 31); return (1u << k) + (uint32_t) rng_range(r, -1, 1); }
        case 2: return 0xFFFFFFFFu - (uint32_t) rng_below(r, 8);
        case 3: return (uint32_t) rng_below(r, 100000);
        case 4: return (uint32_t) rng_u64(r);
        default: return (uint32_t) rng_below(r, 3000);
    }
}

static double cpu_now(void) { struct timespec t; clock_gettime(CLOCK_PROCESS_CPUTIME_ID, &t); return (double) t.tv_sec + 1e-9 * (double) t.tv_nsec; }

static const char *mag(uint32_t v) { return v == 0 ? "0" : v < 10 ? "<10" : v <= 257 ? "small" : v < (1u << 16) ? "<2^16" : v < (1u << 24) ? "<2^24" : v < 0xFFFFFF00u ? "<2^32" : "max"; }

/* returns 1 if a violation was reported */
static int check_tuple(const dtype_t *t, uint32_t spd, uint32_t sdf, uint32_t eps, uint32_t sumdf, int64_t *accepted) {
    struct jls_signal_def_s d;
    memset(&d, 0, sizeof(d));
    d.signal_id = 1; d.source_id = 0; d.signal_type = JLS_SIGNAL_TYPE_FSR; d.data_type = t->code; d.sample_rate = 1000;
    d.samples_per_data = spd; d.sample_decimate_factor = sdf; d.entries_per_summary = eps; d.summary_decimate_factor = sumdf;
    /* the two time-series decimation factors take part in the same normalisation: 0 = default, minimum 2 */
    static const uint32_t tsf[] = {0, 1, 2, 3, 100, 7, 0xffffffffu, 0};
    uint64_t hts = vmix(((uint64_t) spd << 32) ^ sdf, ((uint64_t) eps << 32) ^ sumdf ^ (uint64_t) t->code);
    uint32_t adf = tsf[hts % 8], udf = tsf[(hts >> 8) % 8];
    d.annotation_decimate_factor = adf; d.utc_decimate_factor = udf;
    v_ctx("%s spd=%u sdf=%u eps=%u sumdf=%u adf=%u udf=%u", t->name, spd, sdf, eps, sumdf, adf, udf);
    char key[160], wj[256];
    double t0 = cpu_now();
    v_api("jls_core_signal_def_validate");
    int32_t rc = jls_core_signal_def_validate(&d);
    if (!rc) { v_api("jls_core_signal_def_align"); rc = jls_core_signal_def_align(&d); }
    v_api("");
    double dt = cpu_now() - t0;
    snprintf(wj, sizeof(wj), "{\"type\":\"%s\",\"in\":[%u,%u,%u,%u],\"out\":[%u,%u,%u,%u],\"rc\":%d,\"cpu_s\":%.3f}", t->name, spd, sdf, eps, sumdf,
             d.samples_per_data, d.sample_decimate_factor, d.entries_per_summary, d.summary_decimate_factor, rc, dt);
    if (dt > 1.0) {
        snprintf(key, sizeof(key), "slow-normalise|spd=%s|sdf=%s|eps=%s", mag(spd), mag(sdf), mag(eps));
        v_violation("C16", key, wj, "normalising took %.2f CPU seconds (normal: ~100 ns): neither rejected nor stored in reasonable time", dt);
        return 1;
    }
    if (t->kind != 2) {
        /* the fixed-point exponent q of an integer type says where the binary point lies, not how wide a sample is:
         * the same request with q != 0 is accepted or rejected alike and stored with the same six parameters */
        static const uint32_t qs[] = {1, 4, 8, 15, 31, 63, 127, 200, 255};
        uint32_t q = qs[(hts >> 16) % 9];
        struct jls_signal_def_s f; memset(&f, 0, sizeof(f));
        f.signal_id = 1; f.source_id = 0; f.signal_type = JLS_SIGNAL_TYPE_FSR; f.data_type = t->code | (q << 16); f.sample_rate = 1000;
        f.samples_per_data = spd; f.sample_decimate_factor = sdf; f.entries_per_summary = eps; f.summary_decimate_factor = sumdf;
        f.annotation_decimate_factor = adf; f.utc_decimate_factor = udf;
        v_ctx("%s q=%u spd=%u sdf=%u eps=%u sumdf=%u adf=%u udf=%u", t->name, q, spd, sdf, eps, sumdf, adf, udf);
        int32_t rcq = jls_core_signal_def_validate(&f);
        if (!rcq) rcq = jls_core_signal_def_align(&f);
        v_count("C16", "fixed_point_twins_compared", 1);
        if ((rcq != 0) != (rc != 0) || (!rc && (f.samples_per_data != d.samples_per_data || f.sample_decimate_factor != d.sample_decimate_factor
                || f.entries_per_summary != d.entries_per_summary || f.summary_decimate_factor != d.summary_decimate_factor
                || f.annotation_decimate_factor != d.annotation_decimate_factor || f.utc_decimate_factor != d.utc_decimate_factor))) {
            snprintf(key, sizeof(key), "relation|fixed-point-q-changes-normalisation|spd=%s|sdf=%s|eps=%s|sumdf=%s", mag(spd), mag(sdf), mag(eps), mag(sumdf));
            v_violation("C16", key, wj, "%s with q=%u: rc %d, stored (%u,%u,%u,%u,%u,%u); with q=0: rc %d, stored (%u,%u,%u,%u,%u,%u)", t->name, q, rcq,
                        f.samples_per_data, f.sample_decimate_factor, f.entries_per_summary, f.summary_decimate_factor, f.annotation_decimate_factor, f.utc_decimate_factor, rc,
                        d.samples_per_data, d.sample_decimate_factor, d.entries_per_summary, d.summary_decimate_factor, d.annotation_decimate_factor, d.utc_decimate_factor);
            return 1;
        }
    }
    if (rc) return 0;   /* rejected with an error: fine */
    ++*accepted;
    uint32_t o_spd = d.samples_per_data, o_sdf = d.sample_decimate_factor, o_eps = d.entries_per_summary, o_sum = d.summary_decimate_factor;
    const char *what = NULL;
    uint64_t entry_bits = (uint64_t) o_sdf * (uint64_t) t->bits;
    if (!o_spd || !o_sdf || !o_eps || !o_sum) what = "zero-parameter";
    else if (entry_bits % 8) what = "entry-not-whole-bytes";
    else if ((256 % t->bits) == 0 && (entry_bits % 256)) what = "entry-not-multiple-of-256-bits";
    else if (o_spd % o_sdf) what = "block-not-whole-entries";
    else if (o_eps % (o_spd / o_sdf)) what = "summary-chunk-not-whole-blocks";
    else if (o_eps % o_sum) what = "summary-chunk-not-whole-groups";
    else if (o_sdf < 10 || o_spd < 10 || o_eps < 10 || o_sum < 10) what = "below-minimum";
    else if ((spd && o_spd < spd && o_spd < 10) ) what = "below-minimum";
    if (what) {
        snprintf(key, sizeof(key), "relation|%s|spd=%s|sdf=%s|eps=%s|sumdf=%s", what, mag(spd), mag(sdf), mag(eps), mag(sumdf));
        v_violation("C16", key, wj, "accepted definition stored as (%u,%u,%u,%u): %s", o_spd, o_sdf, o_eps, o_sum, what);
        return 1;
    }
    {
        struct jls_signal_def_s z0; memset(&z0, 0, sizeof(z0));
        z0.signal_id = 1; z0.signal_type = JLS_SIGNAL_TYPE_FSR; z0.data_type = t->code; z0.sample_rate = 1000;
        jls_core_signal_def_align(&z0);
        uint32_t oa = d.annotation_decimate_factor, ou = d.utc_decimate_factor;
        const char *tw = NULL;
        if (oa < 2 || ou < 2) tw = "ts-factor-below-minimum";
        else if ((adf == 0 && oa != z0.annotation_decimate_factor) || (udf == 0 && ou != z0.utc_decimate_factor)) tw = "ts-factor-zero-not-default";
        else if ((adf >= 2 && oa != adf) || (udf >= 2 && ou != udf)) tw = "ts-factor-changed";
        if (tw) {
            snprintf(key, sizeof(key), "relation|%s|sizes-%s", tw, (spd && sdf && eps && sumdf) ? "all-given" : "some-zero");
            v_violation("C16", key, wj, "annotation/utc decimate factors requested (%u,%u) stored as (%u,%u): %s", adf, udf, oa, ou, tw);
            return 1;
        }
    }
    /* idempotence */
    struct jls_signal_def_s d2 = d;
    v_ctx("%s (second pass) spd=%u sdf=%u eps=%u sumdf=%u", t->name, o_spd, o_sdf, o_eps, o_sum);
    int32_t rc2 = jls_core_signal_def_validate(&d2);
    if (!rc2) rc2 = jls_core_signal_def_align(&d2);
    if (rc2 || d2.samples_per_data != o_spd || d2.sample_decimate_factor != o_sdf || d2.entries_per_summary != o_eps || d2.summary_decimate_factor != o_sum ||
        d2.annotation_decimate_factor != d.annotation_decimate_factor || d2.utc_decimate_factor != d.utc_decimate_factor) {
        snprintf(key, sizeof(key), "not-idempotent|spd=%s|sdf=%s|eps=%s|sumdf=%s", mag(spd), mag(sdf), mag(eps), mag(sumdf));
        v_violation("C16", key, wj, "normalising (%u,%u,%u,%u) again gives rc %d (%u,%u,%u,%u)", o_spd, o_sdf, o_eps, o_sum, rc2,
                    d2.samples_per_data, d2.sample_decimate_factor, d2.entries_per_summary, d2.summary_decimate_factor);
        return 1;
    }
    /* zero fields = per-width defaults: replacing a zero field by the width's default gives the same result */
    if (!spd || !sdf || !eps || !sumdf) {
        struct jls_signal_def_s z; memset(&z, 0, sizeof(z));
        z.signal_id = 1; z.signal_type = JLS_SIGNAL_TYPE_FSR; z.data_type = t->code; z.sample_rate = 1000;
        jls_core_signal_def_align(&z);
        struct jls_signal_def_s e; memset(&e, 0, sizeof(e));
        e.signal_id = 1; e.signal_type = JLS_SIGNAL_TYPE_FSR; e.data_type = t->code; e.sample_rate = 1000;
        e.samples_per_data = spd ? spd : z.samples_per_data; e.sample_decimate_factor = sdf ? sdf : z.sample_decimate_factor;
        e.entries_per_summary = eps ? eps : z.entries_per_summary; e.summary_decimate_factor = sumdf ? sumdf : z.summary_decimate_factor;
        v_ctx("%s (defaults) spd=%u sdf=%u eps=%u sumdf=%u", t->name, e.samples_per_data, e.sample_decimate_factor, e.entries_per_summary, e.summary_decimate_factor);
        int32_t rc3 = jls_core_signal_def_align(&e);
        if (rc3 || e.samples_per_data != o_spd || e.sample_decimate_factor != o_sdf || e.entries_per_summary != o_eps || e.summary_decimate_factor != o_sum ||
            !d.annotation_decimate_factor || !d.utc_decimate_factor) {
            snprintf(key, sizeof(key), "defaults-inconsistent|bits=%d", t->bits);
            v_violation("C16", key, wj, "zero fields do not behave like the per-width defaults (%u,%u,%u,%u): explicit gives (%u,%u,%u,%u), adf %u udf %u", z.samples_per_data,
                        z.sample_decimate_factor, z.entries_per_summary, z.summary_decimate_factor, e.samples_per_data, e.sample_decimate_factor, e.entries_per_summary,
                        e.summary_decimate_factor, d.annotation_decimate_factor, d.utc_decimate_factor);
            return 1;
        }
    }
    return 0;
}

/* batch kinds: 0 grid slice, 1 boundary tuples, 2 api round trip */
static void case_grid(uint64_t idx) {
    /* slice: fixed (type, spd index); all sdf x eps x sumdf */
    int ti = (int) (idx % 15);
    size_t a = (size_t) ((idx / 15) % NGRID);
    const dtype_t *t = &DTYPES[ti];
    int64_t n = 0, acc = 0;
    for (size_t b = 0; b < NGRID; ++b) for (size_t c2 = 0; c2 < NGRID; ++c2) for (size_t d = 0; d < NGRID; ++d) {
        ++n;
        if (check_tuple(t, GRID[a], GRID[b], GRID[c2], GRID[d], &acc)) goto done;
    }
done:
    v_count("C16", "grid_tuples", n);
    v_count("C16", "accepted", acc);
    v_feature("C16", acc > 0, "grid|%s|spd=%u", t->name, GRID[a]);
}

static void case_boundary(uint64_t idx, int thorough) {
    rng_t r; rng_seed(&r, vmix(g_seed, idx ^ 0xC16));
    int64_t n = 0, acc = 0;
    int count = thorough ? 200000 : 12000;
    const dtype_t *t = &DTYPES[idx % 15];
    int cls = (int) ((idx / 15) % 4);
    for (int k = 0; k < count; ++k) {
        uint32_t v[4];
        for (int q = 0; q < 4; ++q) v[q] = cls == 0 ? (uint32_t) rng_below(&r, 70000) : cls == 1 ? boundary_value(&r) : cls == 2 ? (rng_chance(&r, 1, 2) ? boundary_value(&r) : (uint32_t) rng_below(&r, 5000)) : (uint32_t) rng_u64(&r);
        ++n;
        if (check_tuple(t, v[0], v[1], v[2], v[3], &acc)) break;
    }
    v_count("C16", "sampled_tuples", n);
    v_count("C16", "accepted", acc);
    v_feature("C16", acc > 0, "sampled|%s|class=%d", t->name, cls);
}

static void case_api(uint64_t idx) {
    rng_t r; rng_seed(&r, vmix(g_seed, idx ^ 0xA16));
    jls_quiet();
    int64_t n = 0, stored = 0;
    for (int k = 0; k < 12; ++k) {
        const dtype_t *t = &DTYPES[rng_below(&r, 15)];
        struct jls_signal_def_s d; memset(&d, 0, sizeof(d));
        d.signal_id = 3; d.source_id = 0; d.signal_type = JLS_SIGNAL_TYPE_FSR; d.data_type = t->code; d.sample_rate = 1000;
        /* a data type the format does not define (zero width, odd widths, unknown base type): rejected, whatever the size fields say */
        int badtype = k == 11 || rng_chance(&r, 1, 12);
        if (badtype) { static const uint32_t bad[] = {0, 0x0001, 0x0003, 0x0004, 0x00080001, 0x0301, 0x0701, 0x0c03, 0x1004, 0x8004, 0x2002, 0x0800, 0xffffffffu}; d.data_type = bad[rng_below(&r, 13)]; }
        uint32_t v[4];
        for (int q = 0; q < 4; ++q) v[q] = rng_chance(&r, 1, 2) ? GRID[rng_below(&r, NGRID)] : (rng_chance(&r, 1, 3) ? boundary_value(&r) : (uint32_t) rng_below(&r, 40000));
        /* keep block buffers allocatable */
        if (v[0] > (1u << 22)) v[0] = (uint32_t) rng_below(&r, 1 << 20);
        if (v[2] > (1u << 20)) v[2] = (uint32_t) rng_below(&r, 1 << 16);
        if (v[1] > (1u << 22)) v[1] = (uint32_t) rng_below(&r, 1 << 12);
        d.samples_per_data = v[0]; d.sample_decimate_factor = v[1]; d.entries_per_summary = v[2]; d.summary_decimate_factor = v[3];
        d.name = "s"; d.units = "u";
        const char *p1 = v_path("def1.jls"), *p2 = v_path("def2.jls");
        v_ctx("api %s spd=%u sdf=%u eps=%u sumdf=%u", t->name, v[0], v[1], v[2], v[3]);
        char key[128], wj[256];
        struct jls_wr_s *wr = NULL; struct jls_rd_s *rd = NULL;
        ++n;
        if (jls_wr_open(&wr, p1)) continue;
        v_api("jls_wr_signal_def");
        int32_t rc = jls_wr_signal_def(wr, &d);
        uint8_t one[8] = {0};
        if (!rc) jls_wr_fsr(wr, 3, 0, one, 1);
        v_api("jls_wr_close");
        jls_wr_close(wr);
        v_api("");
        if (badtype) {
            v_count("C16", "api_undefined_data_types", 1);
            if (!rc) { snprintf(key, sizeof(key), "api|undefined-data-type-accepted"); v_violation("C16", key, NULL, "data type 0x%08x was accepted", d.data_type); }
            unlink(p1); continue;
        }
        if (rc) { unlink(p1); continue; }
        struct jls_signal_def_s g1, g2; memset(&g1, 0, sizeof(g1)); memset(&g2, 0, sizeof(g2));
        if (jls_rd_open(&rd, p1) || jls_rd_signal(rd, 3, &g1)) { v_violation("C16", "api|cannot-read-back", NULL, "accepted definition cannot be read back"); if (rd) jls_rd_close(rd); unlink(p1); continue; }
        struct jls_signal_def_s again = g1;
        char nm[8] = "s", un[8] = "u"; again.name = nm; again.units = un;
        jls_rd_close(rd); rd = NULL;
        snprintf(wj, sizeof(wj), "{\"type\":\"%s\",\"in\":[%u,%u,%u,%u],\"stored\":[%u,%u,%u,%u]}", t->name, v[0], v[1], v[2], v[3], g1.samples_per_data, g1.sample_decimate_factor, g1.entries_per_summary, g1.summary_decimate_factor);
        if (jls_wr_open(&wr, p2)) { unlink(p1); continue; }
        rc = jls_wr_signal_def(wr, &again);
        if (!rc) jls_wr_fsr(wr, 3, 0, one, 1);
        jls_wr_close(wr);
        if (rc) { snprintf(key, sizeof(key), "api|stored-definition-rejected|rc=%d", rc); v_violation("C16", key, wj, "a definition read out of a file is rejected by the writer (rc %d)", rc); }
        else if (jls_rd_open(&rd, p2) || jls_rd_signal(rd, 3, &g2)) v_violation("C16", "api|cannot-read-back", wj, "second file cannot be read back");
        else if (g1.samples_per_data != g2.samples_per_data || g1.sample_decimate_factor != g2.sample_decimate_factor || g1.entries_per_summary != g2.entries_per_summary ||
                 g1.summary_decimate_factor != g2.summary_decimate_factor || g1.annotation_decimate_factor != g2.annotation_decimate_factor || g1.utc_decimate_factor != g2.utc_decimate_factor)
            v_violation("C16", "api|not-stable", wj, "file written from a read-back definition uses (%u,%u,%u,%u)", g2.samples_per_data, g2.sample_decimate_factor, g2.entries_per_summary, g2.summary_decimate_factor);
        else ++stored;
        if (rd) jls_rd_close(rd);
        unlink(p1); unlink(p2);
    }
    v_count("C16", "api_round_trips", n);
    v_count("C16", "api_stored_and_stable", stored);
    v_feature("C16", stored > 0, "api|slice=%d", (int) (idx % 16));
}

static void run_case(uint64_t idx, void *vctx) {
    ctx_t *c = vctx;
    uint64_t ngrid = 15 * NGRID;
    if (idx < ngrid) case_grid(idx);
    else if (idx < ngrid + 60) case_boundary(idx - ngrid, c->thorough);
    else case_api(idx - ngrid - 60);
}

int main(int argc, char **argv) {
    v_init(argc, argv);
    ctx_t c = {.thorough = (int) v_arg_i(argc, argv, "--thorough", 0)};
    g_check = "def";
    run_opts_t ro = {.cpu_s = (int) v_arg_i(argc, argv, "--cpu", 10), .wall_s = 600, .no_fork = v_has_arg(argc, argv, "--no-fork")};
    uint64_t first = (uint64_t) v_arg_i(argc, argv, "--first", 0), count = (uint64_t) v_arg_i(argc, argv, "--count", 20), stride = (uint64_t) v_arg_i(argc, argv, "--stride", 1);
    return v_run_cases(run_case, &c, first, count, stride, &ro) ? 2 : 0;
}
