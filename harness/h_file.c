/*
 * File-level harness: generated writer programs -> synchronous writer (write-once monitor on)
 * -> independent decoder -> public reader vs. submission model.
 * Modes steer the generator towards one property; every mode runs the C05 decoder and the
 * C14 monitor, so those two properties get the union of all modes as coverage.
 */
#define _GNU_SOURCE
#include "vcommon.h"
#include "model.h"
#include "gen.h"
#include "iolog.h"
#include "jlsdec.h"
#include "jls/writer.h"
#include "jls/reader.h"
#include "jls/copy.h"
#include "jls/ec.h"
#include "jls/time.h"
#include <stdlib.h>
#include <string.h>
#include <math.h>
#include <unistd.h>
#include <fcntl.h>

typedef struct { const char *mode; int thorough; int64_t budget; } ctx_t;

static void emit_io_counters(const char *prop) {
    v_count(prop, "backend_writes", (int64_t) g_io.n_write);
    v_count(prop, "appends", (int64_t) g_io.n_append);
    v_count(prop, "inplace_header_rewrites", (int64_t) g_io.n_inplace_hdr);
    v_count(prop, "inplace_head_table_rewrites", (int64_t) g_io.n_inplace_head);
    v_count(prop, "inplace_file_header_rewrites", (int64_t) g_io.n_inplace_filehdr);
    v_count(prop, "identical_rewrites", (int64_t) g_io.n_same);
    v_count(prop, "bytes_written", (int64_t) g_io.bytes);
    v_count(prop, "chunks_tracked", (int64_t) g_io.ck_n);
}

static void sample_prog(const char *prop, const prog_t *p) {
    if ((g_case % 64) > 1) return;
    jb_t j; jb_init(&j);
    prog_describe(p, &j, 12);
    v_sample(prop, j.b);
    jb_free(&j);
}

/* run program through the sync writer under the write-once monitor */
static int run_sync(prog_t *p, model_t *m, const char *path) {
    model_init(m, p);
    iolog_start(path, 1, 0);
    exec_opts_t eo = {.kind = WR_SYNC, .stop_after = -1};
    int rc = exec_prog(p, m, path, &eo);
    iolog_stop();
    emit_io_counters("C14");
    v_feature("C14", g_io.n_inplace_hdr > 0, "%s|hdr-rewrites=%d|head-rewrites=%d|ops=%d", g_check,
              g_io.n_inplace_hdr > 20 ? 2 : g_io.n_inplace_hdr > 0, g_io.n_inplace_head > 8 ? 2 : g_io.n_inplace_head > 0, p->n > 50 ? 2 : p->n > 10);
    return rc;
}

static int summary_levels(const jd_t *d, int sig) {
    int top = 0;
    for (int l = 1; l < JD_LEVELS; ++l) if (d->sig[sig].summary[JD_TT_FSR][l].n) top = l;
    return top;
}

/* ------------------------------------------------------------------------------------- */
static const dtype_t *pick_type(rng_t *r) { return &DTYPES[rng_below(r, 15)]; }

typedef struct { op_t *ops; size_t n, cap; } oplist_t;
static op_t *ol_add(oplist_t *l, int kind) {
    if (l->n == l->cap) { l->cap = l->cap ? l->cap * 2 : 32; l->ops = realloc(l->ops, l->cap * sizeof(op_t)); }
    op_t *o = &l->ops[l->n++];
    memset(o, 0, sizeof(*o));
    o->kind = (uint8_t) kind;
    return o;
}

static void add_stream(oplist_t *l, rng_t *r, uint16_t sig, int64_t first, int64_t n, uint32_t spd, int part, int f32) {
    span_t *sp; size_t k = gen_partition(r, part, first, n, spd, &sp);
    for (size_t i = 0; i < k; ++i) {
        op_t *o = ol_add(l, OP_FSR);
        o->id = sig; o->sid = sp[i].sid; o->n = sp[i].n; o->vseed = rng_u64(r);
        o->via_f32 = f32 && rng_chance(r, 1, 2);
    }
    free(sp);
}

static int64_t type_budget(const dtype_t *t, int64_t budget_bytes) {
    int64_t b = budget_bytes * 8 / t->bits;
    return b < 16 ? 16 : b;
}

/* ----------------------------------- C01 -------------------------------------------- */
static void case_c01(rng_t *r, ctx_t *c) {
    prog_t p; prog_init(&p);
    prog_add_source(&p, 1, "src-one");
    int nsig = (int) rng_range(r, 1, 3);
    oplist_t lists[3]; memset(lists, 0, sizeof(lists));
    char feat[3][160];
    /* one case in four: a lower-numbered FSR signal that is defined and never written (a reader that learns the first
     * sample ids at open has to step over it) */
    int idle = rng_chance(r, 1, 4);
    if (idle) {
        struct jls_signal_def_s e; gen_def(r, &e, 1, 1, pick_type(r), DEF_MINIMAL); e.sample_id_offset = 0;
        prog_add_signal(&p, &e, "idle-below", "", PAT_RANDOM, rng_u64(r));
    }
    for (int i = 0; i < nsig; ++i) {
        const dtype_t *t = pick_type(r);
        int dcls = (int) rng_below(r, DEF_CLASS_COUNT);
        if (dcls == DEF_BIGBLOCK && !rng_chance(r, 1, 6)) dcls = DEF_SMALL;
        if (dcls == DEF_DEFAULTS && !rng_chance(r, 1, 3)) dcls = DEF_MINIMAL;
        struct jls_signal_def_s d, nm;
        gen_def(r, &d, (uint16_t) (i + 2 + rng_below(r, 3) * 10), 1, t, dcls);
        int fcls; int64_t first = gen_first_id(r, &fcls);
        d.sample_id_offset = first;   /* generator bookkeeping for block-aligned patterns; the writer ignores it */
        def_normalised(&d, &nm);
        int lcls;
        int64_t budget = type_budget(t, dcls == DEF_BIGBLOCK ? 8 << 20 : c->budget);
        int64_t n = gen_length(r, &nm, budget, &lcls);
        int pat = PAT_RANDOM;
        if (t->bits <= 8 && rng_chance(r, 1, 3)) pat = PAT_BLOCKCONST;
        char nmbuf[40]; snprintf(nmbuf, sizeof(nmbuf), "sig-%d-%s", i, t->name);
        int si = prog_add_signal(&p, &d, nmbuf, "V", pat, rng_u64(r));
        p.sig[p.ops[si].def].blk = nm.samples_per_data;
        int part = (int) rng_below(r, PART_COUNT);
        add_stream(&lists[i], r, d.signal_id, first, n, nm.samples_per_data, part, t->code == JLS_DATATYPE_F32);
        snprintf(feat[i], sizeof(feat[i]), "%s|def=%s|first=%s|len=%s|part=%s|pat=%d", t->name, DEF_CLASS_NAME[dcls], FIRST_NAME[fcls], LEN_NAME[lcls], PART_NAME[part], pat);
    }
    op_t *ls[3]; size_t cn[3];
    for (int i = 0; i < nsig; ++i) { ls[i] = lists[i].ops; cn[i] = lists[i].n; }
    prog_interleave(&p, r, ls, cn, (size_t) nsig);
    model_t m;
    const char *path = v_path("c01.jls");
    int rc = run_sync(&p, &m, path);
    sample_prog("C01", &p);
    int accepted = 0;
    for (int i = 1; i < 256; ++i) if (m.sig[i].defined && m.sig[i].have) accepted++;
    for (int i = 0; i < nsig; ++i) v_feature("C01", accepted > 0, "%s%s", feat[i], idle ? "|idle-signal-below" : "");
    if (rc) v_violation("C01", "writer-close-error", NULL, "writer open/close returned %d", rc);
    decode_and_compare(path, &m, "C05", "sync", 0);
    verify_opts_t vo = {.prop_len = "C01", .prop_data = "C01", .windows = c->thorough ? 40 : 24, .check_defs = 1, .rng = r, .file_kind = "sync"};
    verify_file(path, &m, &vo);
    v_count("C01", "signals", nsig);
    model_free(&m); prog_free(&p);
    for (int i = 0; i < nsig; ++i) free(lists[i].ops);
    if (!getenv("VERIF_KEEP")) unlink(path);
}

/* ----------------------------------- C02 -------------------------------------------- */
static void case_c02(rng_t *r, ctx_t *c) {
    prog_t p; prog_init(&p);
    prog_add_source(&p, 1, "src-one");
    static const char *types[] = {"u1", "u4", "i4", "u8", "i8", "u16", "i16", "u24", "i24", "u32", "i32", "f32", "f32", "f64", "u64", "i64"};
    const dtype_t *t = dtype_by_name(RNG_PICK(r, types));
    int dcls = rng_chance(r, 2, 3) ? DEF_TINYLEVELS : (rng_chance(r, 1, 2) ? DEF_MINIMAL : DEF_SMALL);
    /* blocks larger than the reader's initial 1 MiB chunk buffer: the nested level-0 request of an unaligned summary-level
     * request makes the reader grow (and move) its buffer */
    if (t->bits >= 8 && rng_chance(r, 1, 10)) dcls = DEF_BIGBLOCK;
    struct jls_signal_def_s d, nm;
    gen_def(r, &d, 3, 1, t, dcls);
    int fcls; int64_t first = gen_first_id(r, &fcls);
    d.sample_id_offset = first;
    /* summary chunks larger than the reader's initial 1 MiB buffer (more than 65536 f32 or 32768 f64 entries), long enough that
     * level 1 holds such a chunk and a lead-in of an unaligned level-2 request is itself served from level 1 */
    int bigsum = dcls != DEF_BIGBLOCK && t->bits >= 16 && rng_chance(r, 1, 12);
    if (bigsum) {
        int wide = t->bits > 32;
        d.sample_decimate_factor = wide ? 12 : 16;
        d.samples_per_data = d.sample_decimate_factor * (uint32_t) rng_range(r, 100, 2000);
        d.summary_decimate_factor = rng_chance(r, 1, 2) ? 50 : 100;
        d.entries_per_summary = (uint32_t) (wide ? rng_range(r, 32800, 36000) : rng_range(r, 65600, 70000));
    }
    int wantband = dcls != DEF_BIGBLOCK && !bigsum && rng_chance(r, 1, 4);
    if (wantband) {   /* summary chunks wider than 25 entries of the next level: see "band" below */
        d.sample_decimate_factor = 10; d.summary_decimate_factor = 10;
        d.samples_per_data = 10 * (uint32_t) rng_range(r, 1, 5);
        d.entries_per_summary = (uint32_t) rng_range(r, 260, 600);
    }
    def_normalised(&d, &nm);
    /* enough samples for the target level: 25 * sdf * sumdf^(L-1), plus slack */
    int target = (int) rng_range(r, 0, c->thorough ? 5 : 3);
    int64_t need = 25 * (int64_t) nm.sample_decimate_factor;
    for (int k = 2; k <= target; ++k) need *= nm.summary_decimate_factor;
    int64_t budget = type_budget(t, c->thorough ? (24 << 20) : (3 << 20));
    if (budget > (c->thorough ? 3000000 : 1500000)) budget = c->thorough ? 3000000 : 1500000;   /* the oracle is O(n) per request */
    int64_t n = need + rng_range(r, 0, need / 2 + nm.samples_per_data * 3);
    if (rng_chance(r, 1, 4)) n = need * 2 + rng_range(r, 0, def_level_span(&nm, 1));
    int band = 0;
    if (wantband) {
        /* top-level band: longer than 25 entries of level L+1 but shorter than one full chunk of level L,
         * so level L+1 exists only if the writer creates it on close (the reader selects it by duration) */
        int L = (int) rng_range(r, 1, target > 1 ? target : 1);
        int64_t stepL = nm.sample_decimate_factor;
        for (int k = 2; k <= L; ++k) stepL *= nm.summary_decimate_factor;
        int64_t lo = 25 * stepL * nm.summary_decimate_factor, hi = (int64_t) nm.entries_per_summary * stepL;
        if (hi > lo + 1 && lo < budget) { n = rng_range(r, lo, hi - 1); band = L; }
    }
    while (n > budget && target > 0) { --target; need /= nm.summary_decimate_factor; n = need + rng_range(r, 0, need / 2 + 3); }
    if (n > budget) n = budget;
    if (bigsum) {   /* one full level-1 chunk and a bit, whatever the budget says: 0.4M (64-bit) or 1.1M samples */
        int64_t full = (int64_t) nm.entries_per_summary * nm.sample_decimate_factor;
        n = full + rng_range(r, 1, full / 3);
    }
    int pat = rng_chance(r, 3, 4) ? PAT_WALK : PAT_SMALL;
    if (t->bits >= 16 && rng_chance(r, 1, 3)) pat = PAT_OFFSET;
    /* blocks the writer omits (constant) or must not omit (constant bytes, different samples inside a byte; constant but
     * for one sample): level-0 statistics and the edges of summary-level requests are then computed from rebuilt blocks */
    if (t->bits <= 8 && rng_chance(r, 1, 3)) pat = PAT_BLOCKCONST;
    int si = prog_add_signal(&p, &d, "stat", "A", pat, rng_u64(r));
    p.sig[p.ops[si].def].blk = nm.samples_per_data;
    oplist_t l; memset(&l, 0, sizeof(l));
    int part = rng_chance(r, 1, 2) ? PART_RANDOM : PART_BLOCKISH;
    /* optional gap in float signals: non-finite fill must not leak into windows that exclude it */
    int gap = (t->kind == 2) && rng_chance(r, 1, 4) && n > 4 * nm.samples_per_data;
    if (gap) {
        int64_t a = rng_range(r, 1, n / 2), g = rng_range(r, 1, 2 * nm.sample_decimate_factor);
        add_stream(&l, r, d.signal_id, first, a, nm.samples_per_data, part, 0);
        add_stream(&l, r, d.signal_id, first + a + g, n - a - g > 0 ? n - a - g : 1, nm.samples_per_data, part, 0);
    } else add_stream(&l, r, d.signal_id, first, n, nm.samples_per_data, part, 0);
    op_t *ls[1] = {l.ops}; size_t cn[1] = {l.n};
    prog_interleave(&p, r, ls, cn, 1);
    model_t m;
    const char *path = v_path("c02.jls");
    run_sync(&p, &m, path);
    sample_prog("C02", &p);
    decode_and_compare(path, &m, "C05", "sync", 0);
    int levels = 0;
    { jd_t dd; if (!jd_load(&dd, path)) { jd_decode(&dd); levels = summary_levels(&dd, 3); jd_free(&dd); } }
    v_feature("C02", m.sig[3].have, "%s|def=%s|levels=%d|first=%s|pat=%d|gap=%d|band=%d", t->name, bigsum ? "bigsummary" : DEF_CLASS_NAME[dcls], levels, FIRST_NAME[fcls], pat, gap, band);
    verify_opts_t vo = {.prop_len = "C01", .prop_data = NULL, .check_stats = 1, .stats_requests = c->thorough ? 120 : 80, .max_level = c->thorough ? 5 : 3, .rng = r, .file_kind = "sync"};
    vo.fresh_path = path; vo.fresh_den = (bigsum || dcls == DEF_BIGBLOCK) ? 2 : 8;
    if (bigsum) vo.stats_requests = 40;
    verify_file(path, &m, &vo);
    model_free(&m); prog_free(&p); free(l.ops);
    if (!getenv("VERIF_KEEP")) unlink(path);
}

/* ----------------------------------- C09 -------------------------------------------- */
static void c09_summaries(const char *path, const model_t *m, int sig) {
    /* stored summaries must treat float gap samples as absent: the decoder recomputes every
     * level-1 entry from the finite samples of its window */
    jd_t d;
    if (jd_load(&d, path)) return;
    jd_decode(&d);
    d.nerr = 0; d.nerr_total = 0;
    if (d.sig[sig].present) jd_check_summaries(&d, &d.sig[sig]);
    for (int i = 0; i < d.nerr; ++i) {
        int dup = 0;
        for (int j = 0; j < i; ++j) if (!strcmp(d.err[j].rule, d.err[i].rule)) dup = 1;
        if (dup) continue;
        char key[96]; snprintf(key, sizeof(key), "summary|%s|kind=%d", d.err[i].rule, m->sig[sig].dt->kind);
        v_violation("C09", key, NULL, "%s", d.err[i].msg);
    }
    v_count("C09", "summary_rule_checks", 1);
    jd_free(&d);
}

static void case_c09(rng_t *r, ctx_t *c) {
    (void) c;
    prog_t p; prog_init(&p);
    prog_add_source(&p, 1, "src-one");
    const dtype_t *t = pick_type(r);
    int dcls = rng_chance(r, 1, 2) ? DEF_MINIMAL : (rng_chance(r, 1, 2) ? DEF_SMALL : DEF_TINYLEVELS);
    struct jls_signal_def_s d, nm;
    gen_def(r, &d, 5, 1, t, dcls);
    int fcls; int64_t first = gen_first_id(r, &fcls);
    d.sample_id_offset = first;
    def_normalised(&d, &nm);
    int si = prog_add_signal(&p, &d, "gap", "", rng_chance(r, 1, 2) ? PAT_RANDOM : PAT_WALK, rng_u64(r));
    p.sig[p.ops[si].def].blk = nm.samples_per_data;
    int64_t spd = nm.samples_per_data;
    int64_t fillcap = (int64_t) 32768 * 8 / t->bits;   /* samples that fit the writer's 32 KiB scratch */
    int64_t pos = first;
    int nev = (int) rng_range(r, 1, 6);
    char evs[200] = ""; size_t en = 0;
    /* a write of no samples, before anything else and at another id than the first real write: it starts nothing */
    int empty_first = rng_chance(r, 1, 5);
    if (empty_first) { op_t *o = prog_add(&p, OP_FSR); o->id = 5; o->sid = pos + (rng_chance(r, 1, 2) ? rng_range(r, 1, 500) : -rng_range(r, 1, 500)); o->n = 0; o->vseed = rng_u64(r); }
    /* initial run */
    {
        int64_t n0 = rng_range(r, 1, 3 * spd);
        op_t *o = prog_add(&p, OP_FSR); o->id = 5; o->sid = pos; o->n = (uint32_t) n0; o->vseed = rng_u64(r);
        pos += n0;
    }
    int maxgapcls = 0, maxovcls = 0;
    for (int e = 0; e < nev; ++e) {
        int64_t n = rng_range(r, 1, 2 * spd + 5);
        if (rng_chance(r, 1, 2)) {
            /* gap */
            int gc = (int) rng_below(r, 9);
            int64_t g;
            switch (gc) {
                case 0: g = 1; break; case 1: g = 7; break; case 2: g = 8; break;
                case 3: g = spd - 1; break; case 4: g = spd; break; case 5: g = spd + 1; break;
                case 6: g = 3 * spd; break;
                case 7: g = fillcap + rng_range(r, -1, 1); break;
                default: g = 5 * fillcap + rng_range(r, 0, 9); break;
            }
            if (g < 1) g = 1;
            if (g > (1 << 22)) g = 1 << 22;
            op_t *o = prog_add(&p, OP_FSR); o->id = 5; o->sid = pos + g; o->n = (uint32_t) n; o->vseed = rng_u64(r);
            pos += g + n;
            if (gc > maxgapcls) maxgapcls = gc;
            en += (size_t) snprintf(evs + en, sizeof(evs) - en, "g%d", gc);
        } else {
            /* overlap: starts before the next expected id */
            int oc = (int) rng_below(r, 10);
            int64_t have = pos - first;
            int64_t back;
            switch (oc) {
                case 0: back = 1; break; case 1: back = 3; break; case 2: back = 8; break;
                case 3: back = rng_range(r, 1, spd); break;
                case 4: back = n + rng_range(r, 0, 5); break;          /* total overlap: nothing new */
                case 5: back = fillcap + 17; break;                    /* longer than the internal scratch */
                case 7: case 8: back = rng_range(r, 1, 9); break;      /* the NEW part is longer than one / several scratch pieces */
                case 9: back = rng_range(r, 1, 3) * 4294967296LL + rng_range(r, 0, n - 1); break;   /* a stale block stamped k * 2^32 too low (a 32-bit counter that missed a wrap): all of it is old */
                default: back = rng_range(r, 1, have); break;
            }
            if (back > have && oc != 9) back = have;
            if (back < 1) back = 1;
            if (oc == 5) n = back + rng_range(r, 1, spd);
            if (oc == 7) n = back + fillcap + rng_range(r, -9, spd + 9);
            if (oc == 8) n = back + 2 * fillcap + rng_range(r, 1, fillcap);
            op_t *o = prog_add(&p, OP_FSR); o->id = 5; o->sid = pos - back; o->n = (uint32_t) n; o->vseed = rng_u64(r);
            if (n > back) pos += n - back;
            if (oc > maxovcls) maxovcls = oc;
            en += (size_t) snprintf(evs + en, sizeof(evs) - en, "o%d", oc);
        }
        if (en > sizeof(evs) - 8) break;
    }
    model_t m;
    const char *path = v_path("c09.jls");
    v_ctx("c09 %s events=%s spd=%lld", t->name, evs, (long long) spd);
    run_sync(&p, &m, path);
    sample_prog("C09", &p);
    v_feature("C09", 1, "%s|def=%s|first=%s|events=%s", t->name, DEF_CLASS_NAME[dcls], FIRST_NAME[fcls], evs);
    decode_and_compare(path, &m, "C05", "sync", 0);
    verify_opts_t vo = {.prop_len = "C09", .prop_data = "C09", .windows = 24, .rng = r, .file_kind = "sync"};
    verify_file(path, &m, &vo);
    if (t->kind == 2) c09_summaries(path, &m, 5);
    model_free(&m); prog_free(&p);
    if (!getenv("VERIF_KEEP")) unlink(path);
}

/* ----------------------------------- C11 -------------------------------------------- */
static void case_c11(rng_t *r, ctx_t *c) {
    int hugeanno = rng_chance(r, 1, 10), nhuge = 0, nutc = 0;
    prog_t p; prog_init(&p);
    prog_add_source(&p, 1, "src-one");
    int nsig = (int) rng_range(r, 1, 2);
    uint16_t ids[3] = {0, 0, 0};
    int withdata[3] = {0};
    uint32_t adfs[3] = {100, 0, 0};
    oplist_t lists[3]; memset(lists, 0, sizeof(lists));
    int nl = 0;
    char feat[200] = ""; size_t fn = 0;
    int use_global = rng_chance(r, 1, 2);
    int total_lists = 0;
    for (int i = 0; i < nsig + use_global; ++i) {
        uint16_t sid; uint32_t adf = 100; int64_t base = 0; int fsr_data = 0;
        int with_utc = 0; int64_t utc_base = 0;   /* UTC entries written in between the annotations of the same FSR signal */
        if (i == 0 && use_global) { sid = 0; }
        else {
            const dtype_t *t = rng_chance(r, 1, 2) ? dtype_by_name("f32") : pick_type(r);
            struct jls_signal_def_s d;
            gen_def(r, &d, (uint16_t) (7 + i), 1, t, DEF_MINIMAL);
            static const uint32_t af[] = {0, 2, 3, 4, 7, 100, 5, 11, 1};   /* 1: below the minimum, stored as 2 */
            d.annotation_decimate_factor = RNG_PICK(r, af);
            if (rng_chance(r, 1, 6)) d.annotation_decimate_factor = (uint32_t) rng_range(r, 2, 40);
            adf = d.annotation_decimate_factor ? (d.annotation_decimate_factor < 2 ? 2 : d.annotation_decimate_factor) : 100;
            int fcls; int64_t first = gen_first_id(r, &fcls);
            d.sample_id_offset = first;
            int is_vsr = rng_chance(r, 1, 4);   /* variable-sample-rate signals carry annotations only; their timestamps are not offset */
            if (is_vsr) { d.signal_type = JLS_SIGNAL_TYPE_VSR; d.sample_rate = 0; d.sample_id_offset = 0; first = 0; }
            prog_add_signal(&p, &d, "anno", "", PAT_RANDOM, rng_u64(r));
            sid = d.signal_id;
            fsr_data = !is_vsr && rng_chance(r, 1, 2);
            with_utc = !is_vsr && rng_chance(r, 1, 3); utc_base = first;
            if (fsr_data) { add_stream(&lists[nl], r, sid, first, rng_range(r, 1, 300), 10, PART_RANDOM, 0); base = first; }
        }
        ids[i] = sid; adfs[i] = adf; withdata[i] = fsr_data;
        /* counts: up to 3 index levels => adf^2 .. adf^3 entries; bounded */
        int64_t maxn = c->thorough ? 6000 : 1500;
        int64_t n;
        switch (rng_below(r, 6)) {
            case 0: n = rng_range(r, 0, 3); break;
            case 1: n = adf + rng_range(r, -1, 1); break;
            case 2: n = (int64_t) adf * adf + rng_range(r, -1, 2); break;
            case 3: n = (int64_t) adf * adf * adf + rng_range(r, -1, 2); break;
            case 4: n = (int64_t) adf * rng_range(r, 1, 12) + rng_range(r, 0, adf); break;
            default: n = rng_range(r, 1, 400); break;
        }
        if (n > maxn) n = rng_range(r, maxn / 2, maxn);
        if (n < 0) n = 0;
        /* the smallest decimation uses up the 15 index levels after 2^15 entries: counts around that capacity and twice it */
        if (adf == 2 && rng_chance(r, 1, c->thorough ? 4 : 12)) n = (rng_chance(r, 1, 2) ? 32768 : 65536) + rng_range(r, -4, 200);
        /* timestamps: non-decreasing, equal runs placed across index-chunk boundaries */
        int64_t ts = base + rng_range(r, -50, 50);
        if (sid == 0) ts = rng_chance(r, 1, 2) ? JLS_TIME_SECOND * rng_range(r, -10, 1000) : rng_range(r, -1000, 1000);
        int tsmode = (int) rng_below(r, 4);
        for (int64_t k = 0; k < n; ++k) {
            op_t *o = ol_add(&lists[nl], OP_ANNO);
            o->id = sid;
            int64_t step;
            switch (tsmode) {
                case 0: step = 1 + (int64_t) rng_below(r, 5); break;                 /* strictly increasing */
                case 1: step = rng_chance(r, 1, 3) ? 0 : (int64_t) rng_below(r, 4); break;       /* many equal */
                case 2: {  /* equal run straddling each multiple of adf (index chunk boundary) */
                    int64_t posn = k % adf;
                    step = (posn == 0 || posn == 1 || posn == adf - 1) ? 0 : 1 + (int64_t) rng_below(r, 3);
                    if (adf <= 3) step = rng_chance(r, 1, 2) ? 0 : 1;
                    break;
                }
                default: {  /* equal run straddling multiples of adf^2 */
                    int64_t posn = k % ((int64_t) adf * adf);
                    step = (posn <= 1 || posn >= (int64_t) adf * adf - 2) ? 0 : 1;
                    break;
                }
            }
            if (k) ts += step;
            o->ts = ts;
            o->atype = (uint8_t) rng_below(r, 4);
            o->group = (uint8_t) rng_below(r, 256);
            float ys[] = {0.0f, 1.5f, -2.25f, NAN, 1e30f};
            o->y = RNG_PICK(r, ys);
            o->stype = (uint8_t) rng_range(r, 1, 3);
            static const uint32_t sz[] = {0, 1, 2, 7, 8, 9, 31, 100, 1000};
            o->dsize = RNG_PICK(r, sz);
            if (rng_chance(r, 1, 400)) o->dsize = 70000;
            /* a payload that makes the writer's 1 MiB chunk buffer grow while the annotation is being assembled (28 bytes precede the payload) */
            if (hugeanno && k == n / 2) { static const uint32_t hs[] = {1048548, 1048549, (1 << 20) + 12345, 3 << 20, (2 << 20) - 27}; o->dsize = RNG_PICK(r, hs); nhuge++; }
            if (o->stype != JLS_STORAGE_TYPE_BINARY && o->dsize == 0) o->dsize = 1;
            o->dseed = rng_u64(r);
            if (with_utc && (k % 4) == 3) { op_t *u = ol_add(&lists[nl], OP_UTC); u->id = sid; u->sid = utc_base + k * 5; u->utc = JLS_TIME_SECOND * 100 + k * 1000000; nutc++; }
        }
        fn += (size_t) snprintf(feat + fn, sizeof(feat) - fn, "%s[%s adf=%u n=%s ts=%d]", i ? "+" : "", sid == 0 ? "global" : (fsr_data ? "fsr+data" : "fsr"),
                                adf, n == 0 ? "0" : n < adf ? "<adf" : n < (int64_t) adf * adf ? "<adf2" : n < (int64_t) adf * adf * adf ? "<adf3" : ">=adf3", tsmode);
        ++nl; ++total_lists;
    }
    (void) ids; (void) adfs; (void) withdata; (void) total_lists;
    op_t *ls[3]; size_t cn[3];
    for (int i = 0; i < nl; ++i) { ls[i] = lists[i].ops; cn[i] = lists[i].n; }
    prog_interleave(&p, r, ls, cn, (size_t) nl);
    model_t m;
    const char *path = v_path("c11.jls");
    run_sync(&p, &m, path);
    sample_prog("C11", &p);
    size_t tot = 0; for (int i = 0; i < 256; ++i) tot += m.sig[i].nanno;
    v_feature("C11", tot > 0, "%s", feat);
    v_feature("C11", nhuge > 0, "huge-annotation-payloads");
    v_feature("C11", nutc > 0, "utc-entries-between-annotations");
    decode_and_compare(path, &m, "C05", "sync", 0);
    verify_opts_t vo = {.prop_len = "C01", .prop_data = NULL, .check_anno = 1, .rng = r, .file_kind = "sync"};
    verify_file(path, &m, &vo);
    model_free(&m); prog_free(&p);
    for (int i = 0; i < nl; ++i) free(lists[i].ops);
    if (!getenv("VERIF_KEEP")) unlink(path);
}

/* ----------------------------------- C12 -------------------------------------------- */
static void case_c12(rng_t *r, ctx_t *c) {
    prog_t p; prog_init(&p);
    prog_add_source(&p, 1, "src-one");
    const dtype_t *t = rng_chance(r, 2, 3) ? dtype_by_name("f32") : pick_type(r);
    struct jls_signal_def_s d;
    gen_def(r, &d, 9, 1, t, DEF_MINIMAL);
    static const uint32_t uf[] = {0, 2, 3, 10, 100, 7, 1};   /* 1: below the minimum, stored as 2 */
    d.utc_decimate_factor = RNG_PICK(r, uf);
    uint32_t udf = d.utc_decimate_factor ? (d.utc_decimate_factor < 2 ? 2 : d.utc_decimate_factor) : 100;
    static const uint32_t rates[] = {1, 2, 50, 1000, 44100, 1000000, 2000000, 999999937, 1000000000};
    d.sample_rate = RNG_PICK(r, rates);
    int fcls; int64_t first = gen_first_id(r, &fcls);
    d.sample_id_offset = first;
    /* other FSR signals around it: a lower-numbered one that never receives samples, a higher-numbered one that does */
    int neighbours = rng_chance(r, 1, 3);
    if (neighbours) {
        struct jls_signal_def_s e; gen_def(r, &e, 3, 1, pick_type(r), DEF_MINIMAL); e.sample_id_offset = 0;
        prog_add_signal(&p, &e, "empty-below", "", PAT_RANDOM, rng_u64(r));
    }
    prog_add_signal(&p, &d, "utc", "", PAT_RANDOM, rng_u64(r));
    oplist_t l[2]; memset(l, 0, sizeof(l));
    int with_data = rng_chance(r, 2, 3);
    if (with_data) add_stream(&l[0], r, 9, first, rng_range(r, 1, 500), 10, PART_RANDOM, 0);
    int64_t n;
    int ncls = (int) rng_below(r, 10);
    switch (ncls) {
        case 0: n = 0; break; case 1: n = 1; break; case 2: n = 2; break; case 3: n = 3; break;
        case 4: n = 999; break; case 5: n = 1000; break; case 6: n = 1001; break;
        case 7: n = 2000 + rng_range(r, 0, 1); break;
        case 8: n = (int64_t) udf * udf * (udf < 20 ? udf : 1) + rng_range(r, -1, 2); break;
        default: n = rng_range(r, 2, 300); break;
    }
    int64_t maxn = c->thorough ? 12000 : 2500;
    if (n > maxn) n = maxn;
    /* more than 2^15 entries at the smallest factor: the index reaches its highest level (15) and that level's list
     * holds more than one chunk (the only list of INDEX chunks the seek walks) */
    if (udf == 2 && rng_chance(r, 1, c->thorough ? 4 : 6)) { n = 32768 + rng_range(r, 1, c->thorough ? 40000 : 4000); ncls = 10; }
    /* anchors: increasing sample ids, non-decreasing times, >= 1 tick per sample */
    long double ticks_per_sample = (long double) JLS_TIME_SECOND / d.sample_rate;
    int64_t sid = first + rng_range(r, 0, 20);
    int64_t utc = JLS_TIME_SECOND * rng_range(r, 1000, 100000000);
    /* where the UTC values lie relative to the sample ids: far above (ordinary), before the epoch, or small */
    int utccls = (int) rng_below(r, 4);
    if (utccls == 1) utc = -JLS_TIME_SECOND * rng_range(r, 1000, 100000000);
    else if (utccls == 2) utc = rng_range(r, -1000, 1000);
    int drift_ppm = (int) rng_range(r, -500, 500);
    int irregular = rng_chance(r, 1, 2);
    /* stalled clock: equal times at random places (1), also over the last segment (2) or the first one (3) */
    int equal_times = rng_chance(r, 1, 4) ? 1 + (int) rng_below(r, 3) : 0;
    for (int64_t k = 0; k < n; ++k) {
        op_t *o = ol_add(&l[1], OP_UTC);
        o->id = 9; o->sid = sid; o->utc = utc;
        int64_t ds = irregular ? rng_range(r, 1, 5000) : 1000;
        if (d.sample_rate <= 2) ds = rng_range(r, 1, 5);
        long double dt = (long double) ds * ticks_per_sample * (1.0L + drift_ppm * 1e-6L);
        int64_t dti = (int64_t) dt;
        if (dti < ds) dti = ds;                 /* at least one tick per sample */
        if (equal_times && rng_chance(r, 1, 6)) dti = 0;
        if ((equal_times == 2 && k == n - 2) || (equal_times == 3 && k == 0)) dti = 0;
        sid += ds; utc += dti;
    }
    op_t *ls[2] = {l[0].ops, l[1].ops}; size_t cn[2] = {l[0].n, l[1].n};
    prog_interleave(&p, r, ls, cn, 2);
    model_t m;
    const char *path = v_path("c12.jls");
    run_sync(&p, &m, path);
    sample_prog("C12", &p);
    v_feature("C12", 1, "n=%d|udf=%u|rate=%u|first=%s|data=%d|irregular=%d|equal=%d|drift=%s", ncls, udf, d.sample_rate, FIRST_NAME[fcls], with_data, irregular, equal_times,
              drift_ppm < -100 ? "neg" : drift_ppm > 100 ? "pos" : "small");
    v_feature("C12", n > 0, "utc-values=%s|first=%s|udf=%u", utccls == 1 ? "pre-epoch" : utccls == 2 ? "small" : "ordinary", FIRST_NAME[fcls], udf);
    v_feature("C12", neighbours && with_data, "empty-lower-numbered-signal|first=%s", FIRST_NAME[fcls]);
    decode_and_compare(path, &m, "C05", "sync", 0);
    verify_opts_t vo = {.prop_len = "C01", .prop_data = NULL, .check_utc = 1, .rng = r, .file_kind = "sync"};
    verify_file(path, &m, &vo);
    model_free(&m); prog_free(&p); free(l[0].ops); free(l[1].ops);
    if (!getenv("VERIF_KEEP")) unlink(path);
}

/* ----------------------------------- C13 -------------------------------------------- */
static char *make_string(rng_t *r, int cls, size_t *len_out) {
    size_t n;
    switch (cls) {
        case 0: return NULL;
        case 1: n = 0; break;
        case 2: n = (size_t) rng_range(r, 1, 40); break;
        case 3: n = (size_t) rng_range(r, 1, 40); break;     /* utf-8 */
        case 4: n = (size_t) rng_range(r, 1, 30); break;     /* contains 0x1f */
        case 5: n = 65536; break;
        case 6: n = (size_t) rng_range(r, 300000, 600000); break;   /* sums cross the 1 MiB string block */
        default: n = (1 << 20) + (size_t) rng_range(r, 1, 1000); break;   /* > 1 MiB */
    }
    char *s = malloc(n + 1);
    for (size_t i = 0; i < n; ++i) {
        uint64_t h = vmix(rng_u64(r), i);
        if (cls == 3) { static const char *u = "\xc3\xa9\xe2\x82\xac\xf0\x9f\x98\x80"; s[i] = u[i % 9]; }
        else if (cls == 4 && (h % 5) == 0) s[i] = 0x1f;
        else s[i] = (char) ('a' + h % 26);
    }
    if (cls == 3) {  /* keep valid utf-8: trim to a multiple of the 9-byte pattern or pad */
        size_t k = n - (n % 9); if (k == 0) { k = 9 < n ? 9 : n; }
        n = k;
    }
    s[n] = 0;
    if (len_out) *len_out = n;
    return s;
}

/* C17 (closed source): jls_copy must succeed and the copy must read back like the source */
static void copy_check(const char *path, rng_t *r) {
    const char *cp = v_path("copy-of.jls");
    v_api("jls_copy");
    int32_t rc = jls_copy(path, cp, NULL, NULL, NULL, NULL);
    v_api("");
    char key[96];
    if (rc) { snprintf(key, sizeof(key), "copy-error|rc=%d|closed", rc); v_violation("C17", key, NULL, "jls_copy of a readable closed file returned %d", rc); }
    else {
        decode_and_compare(cp, NULL, "C17", "copy", 0);
        dump_t du, dc; uint64_t ds = rng_u64(r);
        dump_file(path, &du, ds); dump_file(cp, &dc, ds);
        /* signals with omitted blocks in the source: jls_copy re-writes those blocks as gaps (known finding,
         * reported once per file under its own key); every other signal is compared in full */
        uint8_t has_omitted[256]; memset(has_omitted, 0, sizeof(has_omitted));
        int any_omitted = 0;
        {
            jd_t sd;
            if (!jd_load(&sd, path)) {
                jd_decode(&sd);
                for (int s = 1; s < 256; ++s) {
                    const jd_list_t *il = &sd.sig[s].index[JD_TT_FSR][1];
                    for (size_t k = 0; k < il->n; ++k) {
                        const jd_chunk_t *ic = &sd.ch[il->idx[k]];
                        if (ic->plen < 16) continue;
                        uint32_t cnt; memcpy(&cnt, ic->payload + 8, 4);
                        for (uint32_t e = 0; e < cnt && 16 + 8 * (uint64_t) (e + 1) <= ic->plen; ++e) { uint64_t off; memcpy(&off, ic->payload + 16 + 8 * e, 8); if (!off) has_omitted[s] = 1; }
                    }
                    if (has_omitted[s] && (du.h_len[s] != dc.h_len[s] || du.h_samples[s] != dc.h_samples[s] || du.h_stats[s] != dc.h_stats[s])) any_omitted = 1;
                    /* the finding concerns the omitted blocks only: every block that IS stored in the source must
                     * read back from the copy at the same position with the same samples */
                    if (has_omitted[s] && sd.sig[s].spd) {
                        struct jls_rd_s *ra = NULL, *rb = NULL;
                        if (!jls_rd_open(&ra, path) && !jls_rd_open(&rb, cp)) {
                            const dtype_t *t = dtype_by_code(sd.sig[s].data_type);
                            int64_t la = 0, lb = 0, blk = 0, spd = sd.sig[s].spd;
                            jls_rd_fsr_length(ra, (uint16_t) s, &la); jls_rd_fsr_length(rb, (uint16_t) s, &lb);
                            int64_t ln = la < lb ? la : lb;
                            size_t nb = t ? (size_t) ((spd * t->bits + 7) / 8) + 16 : 0;
                            uint8_t *xa = calloc(nb + 1, 1), *xb = calloc(nb + 1, 1);
                            int flagged = 0;
                            for (size_t k = 0; k < il->n && t && !flagged; ++k) {
                                const jd_chunk_t *ic = &sd.ch[il->idx[k]];
                                if (ic->plen < 16) continue;
                                uint32_t cnt; memcpy(&cnt, ic->payload + 8, 4);
                                for (uint32_t e = 0; e < cnt && 16 + 8 * (uint64_t) (e + 1) <= ic->plen && !flagged; ++e, ++blk) {
                                    uint64_t off; memcpy(&off, ic->payload + 16 + 8 * e, 8);
                                    int64_t p0 = blk * spd, n0 = p0 + spd <= ln ? spd : ln - p0;
                                    if (!off || n0 <= 0) continue;
                                    int32_t r1 = jls_rd_fsr(ra, (uint16_t) s, p0, xa, n0), r2 = jls_rd_fsr(rb, (uint16_t) s, p0, xb, n0);
                                    if (r1 == 0 && (r2 != 0 || !bits_equal(xa, 0, xb, 0, n0 * t->bits, NULL))) {
                                        v_violation("C17", "closed|stored-block-differs|signal-with-omitted-blocks", NULL, "signal %d: block %lld (samples %lld..), which is stored in the source, reads back differently from the copy (rc %d)", s, (long long) blk, (long long) p0, r2);
                                        flagged = 1;
                                    }
                                }
                            }
                            v_count("C17", "stored_blocks_compared_in_signals_with_omission", blk);
                            free(xa); free(xb);
                        }
                        if (ra) jls_rd_close(ra);
                        if (rb) jls_rd_close(rb);
                    }
                }
                jd_free(&sd);
            }
        }
        dump_compare_skip_fsr(has_omitted);
        dump_compare(&du, &dc, "C17", "closed", "source vs copy");
        dump_compare_skip_fsr(NULL);
        if (any_omitted) v_violation("C17", "closed|omitted-blocks-copied-as-gaps", NULL, "a signal with omitted level-0 blocks reads back differently from the copy (length %s)", "samples or statistics");
        decode_and_compare(cp, NULL, "C05", "copy", 0);
    }
    v_count("C17", "copies_compared", 1);
    if (!getenv("VERIF_KEEP")) unlink(cp);
}

/* C17, damaged but readable original: one chunk header of a closed file is made unreadable (one bit flipped in the
 * header of a USER_DATA, ANNOTATION DATA or FSR DATA chunk).  The reader still opens the file and reaches everything in
 * front of the damaged chunk in that chunk's list and all other lists; jls_copy has to resynchronise behind the chunk.
 * Everything the reader returns from the damaged original must read back the same from the copy (the copy may hold
 * more: it scans linearly). */
static void damaged_copy_check(const char *path, rng_t *r) {
    jd_t d;
    if (jd_load(&d, path)) return;
    jd_decode(&d);
    size_t cand[512]; size_t nc = 0, nbig = 0; size_t big[64];
    for (size_t i = 0; i < d.n && nc < 512; ++i) {
        uint8_t tag = d.ch[i].tag;
        if (tag != 0x40 && tag != 0x32 && tag != 0x22) continue;
        if (tag == 0x40 && d.ch[i].plen == 0) continue;              /* list head */
        cand[nc++] = i;
        if (d.ch[i].plen >= 4000 && nbig < 64) big[nbig++] = i;
    }
    if (!nc) { jd_free(&d); return; }
    size_t pick = (nbig && rng_chance(r, 3, 4)) ? big[rng_below(r, nbig)] : cand[rng_below(r, nc)];
    uint64_t off = d.ch[pick].off; uint8_t tag = d.ch[pick].tag; uint32_t plen = d.ch[pick].plen;
    const char *dm = v_path("damaged.jls"), *cp = v_path("damaged-copy.jls");
    uint8_t *buf = malloc(d.size); memcpy(buf, d.buf, d.size);
    /* a bit of tag, chunk_meta, payload_length or payload_prev_length (bytes 16..27): never the shape of an interrupted link update */
    buf[off + 16 + rng_below(r, 12)] ^= (uint8_t) (1u << rng_below(r, 8));
    int fd = open(dm, O_WRONLY | O_CREAT | O_TRUNC, 0600);
    if (fd < 0 || write(fd, buf, d.size) != (ssize_t) d.size) { if (fd >= 0) close(fd); free(buf); jd_free(&d); return; }
    close(fd); free(buf);
    size_t size = d.size;
    jd_free(&d);
    (void) size;
    v_api("jls_copy");
    int32_t rc = jls_copy(dm, cp, NULL, NULL, NULL, NULL);
    v_api("");
    v_count("C17", "damaged_originals_copied", 1);
    v_feature("C17", 1, "damaged|tag=0x%02x|payload=%s", tag, plen >= 4000 ? ">=4000" : plen >= 256 ? ">=256" : "small");
    if (rc) { v_count("C17", "damaged_copy_returned_error", 1); unlink(dm); unlink(cp); return; }
    dump_t da, dc; uint64_t ds = rng_u64(r);
    dump_keep_sequences(1);
    dump_file(dm, &da, ds); dump_file(cp, &dc, ds);
    dump_keep_sequences(0);
    if (da.open_rc) v_count("C17", "damaged_original_unreadable", 1);
    else {
        uint8_t skip[256]; memset(skip, 0, sizeof(skip));
        { jd_t sd; if (!jd_load(&sd, path)) { jd_decode(&sd);
            for (int s = 1; s < 256; ++s) { const jd_list_t *il = &sd.sig[s].index[JD_TT_FSR][1];
                for (size_t k = 0; k < il->n; ++k) { const jd_chunk_t *ic = &sd.ch[il->idx[k]]; if (ic->plen < 16) continue; uint32_t cnt; memcpy(&cnt, ic->payload + 8, 4);
                    for (uint32_t e = 0; e < cnt && 16 + 8 * (uint64_t) (e + 1) <= ic->plen; ++e) { uint64_t o2; memcpy(&o2, ic->payload + 16 + 8 * e, 8); if (!o2) skip[s] = 1; } } }
            jd_free(&sd); } }   /* omitted blocks: known finding of closed copies */
        dump_prefix_lenient(1);
        dump_compare_prefix(&da, &dc, dm, cp, "C17", "damaged", skip);
        dump_prefix_lenient(0);
    }
    dump_free(&da); dump_free(&dc);
    if (!getenv("VERIF_KEEP")) { unlink(dm); unlink(cp); }
}

static int files_identical(const char *a, const char *b, size_t *first_diff) {
    jd_t x, y;
    if (jd_load(&x, a)) return -1;
    if (jd_load(&y, b)) { jd_free(&x); return -1; }
    int same = x.size == y.size && !memcmp(x.buf, y.buf, x.size);
    if (!same && first_diff) { size_t i = 0; while (i < x.size && i < y.size && x.buf[i] == y.buf[i]) ++i; *first_diff = i; }
    jd_free(&x); jd_free(&y);
    return same;
}

/* the whole id space: all 255 user sources and all 255 user signals, in scrambled order (counts that no longer fit 8 bits) */
static void case_c13_full(rng_t *r) {
    prog_t p; prog_init(&p);
    uint16_t ids[255];
    for (int i = 0; i < 255; ++i) ids[i] = (uint16_t) (i + 1);
    for (int i = 254; i > 0; --i) { int j = (int) rng_below(r, (uint64_t) i + 1); uint16_t t = ids[i]; ids[i] = ids[j]; ids[j] = t; }
    int nsrc = rng_chance(r, 1, 2) ? 255 : (int) rng_range(r, 250, 254);
    for (int i = 0; i < nsrc; ++i) { char nm[24]; snprintf(nm, sizeof(nm), "src-%u", ids[i]); prog_add_source(&p, ids[i], nm); }
    uint16_t sids[255];
    for (int i = 0; i < 255; ++i) sids[i] = (uint16_t) (i + 1);
    for (int i = 254; i > 0; --i) { int j = (int) rng_below(r, (uint64_t) i + 1); uint16_t t = sids[i]; sids[i] = sids[j]; sids[j] = t; }
    int nsig = rng_chance(r, 1, 2) ? 255 : (int) rng_range(r, 250, 254);
    for (int i = 0; i < nsig; ++i) {
        struct jls_signal_def_s d;
        gen_def(r, &d, sids[i], ids[rng_below(r, (uint64_t) nsrc)], pick_type(r), DEF_MINIMAL);
        if (rng_chance(r, 1, 6)) { d.signal_type = JLS_SIGNAL_TYPE_VSR; d.sample_rate = 0; }
        char nm[24]; snprintf(nm, sizeof(nm), "sig-%u", sids[i]);
        prog_add_signal(&p, &d, nm, (i & 1) ? "u" : "", PAT_RANDOM, rng_u64(r));
    }
    for (int i = 0; i < 3; ++i) { op_t *o = prog_add(&p, OP_USER); o->meta = (uint16_t) rng_below(r, 4096); o->stype = (uint8_t) rng_range(r, 1, 3); o->dsize = (uint32_t) rng_range(r, 1, 50); o->dseed = rng_u64(r); }
    model_t m;
    const char *path = v_path("c13full.jls");
    run_sync(&p, &m, path);
    sample_prog("C13", &p);
    v_feature("C13", 1, "full-id-space|src=%d|sig=%d", nsrc, nsig);
    decode_and_compare(path, &m, "C05", "sync", 0);
    verify_opts_t vo = {.prop_len = "C01", .prop_data = "C01", .windows = 1, .check_defs = 1, .check_user = 1, .rng = r, .file_kind = "sync"};
    verify_file(path, &m, &vo);
    model_free(&m); prog_free(&p);
    if (!getenv("VERIF_KEEP")) unlink(path);
}

static void case_c13(rng_t *r, ctx_t *c) {
    if (rng_chance(r, 1, 40)) { case_c13_full(r); return; }
    prog_t p; prog_init(&p);
    int big = c->thorough ? rng_chance(r, 1, 8) : rng_chance(r, 1, 10);
    /* sources in random order, random ids */
    int nsrc = (int) rng_range(r, 1, 6);
    uint16_t src_ids[8]; int src_n = 0;
    for (int i = 0; i < nsrc; ++i) {
        uint16_t id = (uint16_t) rng_range(r, 1, 255);
        if (rng_chance(r, 1, 5)) id = 255;
        int dup = 0; for (int k = 0; k < src_n; ++k) if (src_ids[k] == id) dup = 1;
        if (dup) continue;
        src_ids[src_n++] = id;
    }
    /* defined at random times: build three lists and interleave */
    oplist_t ldef, ldata, luser; memset(&ldef, 0, sizeof(ldef)); memset(&ldata, 0, sizeof(ldata)); memset(&luser, 0, sizeof(luser));
    char feat[200]; size_t fn = 0; feat[0] = 0;
    int strmax = 0;
    for (int i = 0; i < src_n; ++i) {
        int oi = prog_add_source(&p, src_ids[i], "x");
        psrc_t *ps = &p.src[p.ops[oi].def];
        for (int q = 0; q < 5; ++q) {
            free(ps->s[q]);
            int cls = (int) rng_below(r, 5);
            if (big && q == 0 && i == 0) cls = 5 + (int) rng_below(r, 3);      /* 64 KiB, 300-600 KB, > 1 MiB (rejected) */
            if (big && q == 1 && i == 0 && strmax == 6) cls = 6;               /* two long strings: their sum may pass 1 MiB */
            if (big && i > 0 && q < 2 && rng_chance(r, 1, 2)) cls = 5 + (int) rng_below(r, 2);   /* definitions whose strings total more than one 1 MiB string block of the reader */
            if (cls > strmax) strmax = cls;
            ps->s[q] = make_string(r, cls, NULL);
        }
        /* move the op into ldef (program so far only holds defs) */
    }
    /* signals: valid ones name a defined source; some invalid ones are expected to be rejected */
    int nsig = (int) rng_range(r, 1, 5);
    uint16_t sig_ids[8]; int sig_vsr[8] = {0}; int sig_n = 0;
    for (int i = 0; i < nsig; ++i) {
        uint16_t id = (uint16_t) rng_range(r, 1, 255);
        int dup = 0; for (int k = 0; k < sig_n; ++k) if (sig_ids[k] == id) dup = 1;
        if (dup) continue;
        sig_ids[sig_n++] = id;
        const dtype_t *t = pick_type(r);
        struct jls_signal_def_s d;
        /* one signal in six belongs to source 0, the source every file defines itself */
        gen_def(r, &d, id, rng_chance(r, 1, 6) ? 0 : src_ids[rng_below(r, (uint64_t) src_n)], t, rng_chance(r, 1, 2) ? DEF_MINIMAL : DEF_SMALL);
        sig_vsr[sig_n - 1] = rng_chance(r, 1, 5);
        if (sig_vsr[sig_n - 1]) { d.signal_type = JLS_SIGNAL_TYPE_VSR; d.sample_rate = 0; }   /* definitions of both signal types round-trip */
        int ncls = (int) rng_below(r, 5), ucls = (int) rng_below(r, 5);
        /* the writer keeps its own copies of signal names and units in 1 MiB string blocks: long names, so that a name is the string
         * that no longer fits the current block, with units to follow it */
        if (big && rng_chance(r, 2, 3)) { ncls = 5 + (int) rng_below(r, 2); if (ncls > strmax) strmax = ncls; }
        if (big && rng_chance(r, 1, 5)) { ucls = 5 + (int) rng_below(r, 2); if (ucls > strmax) strmax = ucls; }
        char *nm = make_string(r, ncls ? ncls : 2, NULL), *un = make_string(r, ucls ? ucls : 1, NULL);
        prog_add_signal(&p, &d, nm, un, PAT_RANDOM, rng_u64(r));
        free(nm); free(un);
    }
    /* now p.ops = all defs in order; shuffle defs: sources before the signals that use them is required
     * for acceptance; we keep source order first but delay some signals after data of others */
    size_t ndefs = p.n;
    op_t *defs = malloc(ndefs * sizeof(op_t));
    memcpy(defs, p.ops, ndefs * sizeof(op_t));
    p.n = 0;
    /* data for each signal */
    for (int i = 0; i < sig_n; ++i) {
        oplist_t *l = &ldata;
        int64_t first = rng_range(r, -20, 1000);
        int64_t n = sig_vsr[i] ? 0 : rng_range(r, 0, 400);
        int64_t pos = first;
        while (n > 0) {
            op_t *o = ol_add(l, OP_FSR);
            o->id = sig_ids[i]; o->sid = pos; o->n = (uint32_t) rng_range(r, 1, n); o->vseed = rng_u64(r);
            pos += o->n; n -= o->n;
        }
    }
    /* user data */
    int nuser = (int) rng_range(r, 0, 8);
    int usermax = 0, n_placeholder = 0;
    for (int i = 0; i < nuser; ++i) {
        op_t *o = ol_add(&luser, OP_USER);
        o->meta = (uint16_t) rng_below(r, 4096);
        if (rng_chance(r, 1, 6)) o->meta |= (uint16_t) (rng_below(r, 16) << 12);   /* reserved bits set: masked */
        o->stype = (uint8_t) rng_range(r, 1, 3);
        int scls = (int) rng_below(r, 5);
        if (big && i < 2) scls = 5 + (int) rng_below(r, 12);
        static const uint32_t sz[] = {0, 1, 17, 4096, 70000, (1 << 20) - 1, 1 << 20, (1 << 20) + 1, 3 << 20, (1 << 20) - 20,
                                      (1 << 20) - 3, (1 << 20) - 4, (1 << 20) - 11, (1 << 20) - 12, (2 << 20) - 1, (2 << 20) - 5, 2 << 20};
        o->dsize = sz[scls];
        if (scls > usermax) usermax = scls;
        if (o->stype != JLS_STORAGE_TYPE_BINARY && o->dsize == 0) o->dsize = 1;
        o->dseed = rng_u64(r);
        if (rng_chance(r, 1, 7)) { o->stype = JLS_STORAGE_TYPE_INVALID; o->dsize = (uint32_t) rng_below(r, 20); n_placeholder++; }   /* a placeholder between the items */
    }
    /* rejected calls: duplicate source, duplicate signal, signal with undefined source, data for undefined signal, ids >= 256 */
    oplist_t lrej; memset(&lrej, 0, sizeof(lrej));
    int nrej = (int) rng_range(r, 0, 5);
    /* assemble: sources first (so signals are accepted), then interleave signals/data/user/rejects; data for a signal only after its def */
    for (size_t i = 0; i < ndefs; ++i) if (defs[i].kind == OP_SOURCE) { op_t *o = prog_add(&p, OP_SOURCE); uint64_t u = o->uid; *o = defs[i]; o->uid = u; }
    size_t nsigdefs = 0; op_t *sigdefs = malloc((ndefs + 1) * sizeof(op_t));
    for (size_t i = 0; i < ndefs; ++i) if (defs[i].kind == OP_SIGNAL) sigdefs[nsigdefs++] = defs[i];
    /* per signal list: def followed by its data */
    oplist_t per[8]; memset(per, 0, sizeof(per));
    for (size_t i = 0; i < nsigdefs && i < 8; ++i) {
        *ol_add(&per[i], OP_SIGNAL) = sigdefs[i];
        for (size_t k = 0; k < ldata.n; ++k) if (ldata.ops[k].id == sigdefs[i].id) *ol_add(&per[i], OP_FSR) = ldata.ops[k];
    }
    for (int i = 0; i < nrej; ++i) {
        int kind = (int) rng_below(r, 8);
        op_t *o;
        switch (kind) {
            case 7: {  /* binary user data with a size but no payload pointer: jls_wr_user_data documents and checks this case
                        * (the same call on jls_wr_annotation is a caller error outside every property: not generated) */
                o = ol_add(&lrej, OP_USER); o->meta = (uint16_t) rng_below(r, 4096);
                o->stype = JLS_STORAGE_TYPE_BINARY; o->dsize = (uint32_t) rng_range(r, 1, 64); o->dseed = 1; o->expect_reject = 3;
                break;
            }
            case 6: {  /* a signal definition with invalid parameters (FSR without sample rate / unknown data type), then data for that id */
                struct jls_signal_def_s d; uint16_t sid = (uint16_t) rng_range(r, 1, 255);
                int used = 0; for (int k = 0; k < sig_n; ++k) if (sig_ids[k] == sid) used = 1;
                if (used || !src_n) break;
                gen_def(r, &d, sid, src_ids[0], &DTYPES[13], DEF_MINIMAL);
                int badtype = rng_chance(r, 1, 2);
                if (!badtype) d.sample_rate = 0; else d.data_type = 0x00001234;
                size_t before = p.n;
                prog_add_signal(&p, &d, "invalid", "", PAT_RANDOM, 1);
                o = ol_add(&lrej, OP_SIGNAL); *o = p.ops[before]; p.n = before; o->expect_reject = 1;
                int nd = (int) rng_range(r, 1, badtype ? 2 : 3);   /* no sample data for a type the generator cannot produce */
                for (int q = 0; q < nd; ++q) {
                    o = ol_add(&lrej, q == 0 ? OP_ANNO : (q == 1 ? OP_UTC : OP_FSR));
                    o->id = sid; o->sid = 0; o->n = 10; o->vseed = 1; o->stype = JLS_STORAGE_TYPE_BINARY; o->dsize = 4; o->expect_reject = 1;
                }
                break;
            }
            case 0: if (!src_n) break; o = ol_add(&lrej, OP_SOURCE); *o = defs[0]; for (size_t q = 0; q < ndefs; ++q) if (defs[q].kind == OP_SOURCE) { *o = defs[q]; break; } o->expect_reject = 1; break;
            case 1: if (!nsigdefs) break; o = ol_add(&lrej, OP_SIGNAL); *o = sigdefs[rng_below(r, nsigdefs)]; o->expect_reject = 2; break;   /* duplicate only once its original was issued */
            case 2: {  /* signal naming an undefined source */
                struct jls_signal_def_s d; uint16_t sid = (uint16_t) rng_range(r, 1, 255);
                int used = 0; for (int k = 0; k < sig_n; ++k) if (sig_ids[k] == sid) used = 1;
                uint16_t bad_src = (uint16_t) rng_range(r, 1, 254);
                for (int k = 0; k < src_n; ++k) if (src_ids[k] == bad_src) used = 1;
                if (used) break;
                gen_def(r, &d, sid, bad_src, &DTYPES[13], DEF_MINIMAL);
                size_t before = p.n;
                prog_add_signal(&p, &d, "orphan", "", PAT_RANDOM, 1);
                o = ol_add(&lrej, OP_SIGNAL); *o = p.ops[before]; p.n = before; o->expect_reject = 1;
                break;
            }
            case 3: {  /* data for an undefined signal */
                uint16_t sid = (uint16_t) rng_range(r, 1, 255);
                int used = 0; for (int k = 0; k < sig_n; ++k) if (sig_ids[k] == sid) used = 1;
                if (used) break;
                o = ol_add(&lrej, rng_chance(r, 1, 2) ? OP_FSR : (rng_chance(r, 1, 2) ? OP_ANNO : OP_UTC));
                o->id = sid; o->sid = 0; o->n = 10; o->vseed = 1; o->stype = JLS_STORAGE_TYPE_BINARY; o->dsize = 4; o->expect_reject = 1;
                break;
            }
            case 4: {  /* ids >= 256 */
                struct jls_signal_def_s d;
                static const uint16_t badids[] = {256, 300, 4095, 65535};
                gen_def(r, &d, RNG_PICK(r, badids), src_n ? src_ids[0] : 0, &DTYPES[13], DEF_MINIMAL);
                size_t before = p.n;
                prog_add_signal(&p, &d, "bad", "", PAT_RANDOM, 1);
                o = ol_add(&lrej, OP_SIGNAL); *o = p.ops[before]; p.n = before; o->expect_reject = 1;
                break;
            }
            default: {
                static const uint16_t badids[] = {256, 1000, 65535};
                size_t before = p.n;
                prog_add_source(&p, RNG_PICK(r, badids), "bad");
                o = ol_add(&lrej, OP_SOURCE); *o = p.ops[before]; p.n = before; o->expect_reject = 1;
                break;
            }
        }
    }
    op_t *ls[16]; size_t cn[16]; size_t nl = 0;
    for (size_t i = 0; i < nsigdefs && i < 8; ++i) { ls[nl] = per[i].ops; cn[nl] = per[i].n; ++nl; }
    ls[nl] = luser.ops; cn[nl] = luser.n; ++nl;
    ls[nl] = lrej.ops; cn[nl] = lrej.n; ++nl;
    prog_interleave(&p, r, ls, cn, nl);
    /* duplicate-signal rejects are only certain after the original: mark by scanning */
    {
        int seen[256] = {0};
        for (size_t i = 0; i < p.n; ++i) {
            op_t *o = &p.ops[i];
            if (o->kind == OP_SIGNAL && o->id < 256) {
                if (o->expect_reject == 2) { o->expect_reject = seen[o->id] ? 1 : 0; if (!o->expect_reject) seen[o->id] = 1; }
                else if (!o->expect_reject) { if (seen[o->id]) o->expect_reject = 1; seen[o->id] = 1; }
            }
        }
    }

    /* run 1: whole program, watching writes during rejected calls */
    model_t m;
    const char *path = v_path("c13.jls"), *path2 = v_path("c13b.jls");
    model_init(&m, &p);
    iolog_start(path, 1, 0);
    struct jls_wr_s *wr = NULL;
    int32_t rc = jls_wr_open(&wr, path);
    int rejected = 0, accepted_but_expected_reject = 0;
    if (!rc) {
        for (size_t i = 0; i < p.n; ++i) {
            uint64_t w0 = g_io.n_write;
            op_t *o = &p.ops[i];
            /* a signal may only be accepted while its source is defined *as the writer reported it*: a source
             * definition that returned an error (e.g. a 1 MiB string) defines nothing */
            int src_known = 1; unsigned src_id = 0;
            if (o->kind == OP_SIGNAL) { src_id = p.sig[o->def].def.source_id; src_known = src_id < 256 && m.src_defined[src_id]; }
            /* FSR data for a defined signal needs the right psig; exec_op_sync looks it up by id */
            exec_op_sync(wr, &p, o);
            model_apply(&m, i);
            if (o->kind == OP_SIGNAL && o->rc == 0 && !src_known) {
                v_violation("C13", "accepted|signal-naming-undefined-source", NULL, "signal %u accepted although its source %u was never accepted by the writer", o->id, src_id);
                accepted_but_expected_reject++;
            }
            if (o->expect_reject) {
                char key[96];
                static const char *kn[] = {"", "source", "signal", "fsr", "omit", "annotation", "utc", "user"};
                if (o->rc == 0) {
                    snprintf(key, sizeof(key), "accepted|%s", kn[o->kind]);
                    v_violation("C13", key, NULL, "a %s call that must be rejected (id %u) returned 0", kn[o->kind], o->id);
                    accepted_but_expected_reject++;
                } else {
                    rejected++;
                    if (g_io.n_write != w0) {
                        snprintf(key, sizeof(key), "rejected-call-wrote|%s", kn[o->kind]);
                        v_violation("C13", key, NULL, "rejected %s call (rc %d) caused %llu backend writes", kn[o->kind], o->rc, (unsigned long long) (g_io.n_write - w0));
                    }
                }
            } else if (o->rc != 0 && (o->kind == OP_SOURCE || o->kind == OP_SIGNAL || o->kind == OP_USER)) {
                /* an unexpected rejection of a valid definition is only a violation when the statement promises acceptance:
                 * it does not ("accepted by the writer"); record it as coverage information */
                v_count("C13", "valid_calls_rejected", 1);
            }
        }
        jls_wr_close(wr);
    }
    iolog_stop();
    emit_io_counters("C14");
    v_count("C13", "rejected_calls_checked", rejected);
    sample_prog("C13", &p);
    v_feature("C13", 1, "src=%d|sig=%d|user=%d|usermax=%d|strmax=%d|rej=%d|big=%d|placeholders=%d", src_n, (int) nsigdefs, nuser, usermax, strmax, nrej, big, n_placeholder > 0);
    decode_and_compare(path, &m, "C05", "sync", 0);
    verify_opts_t vo = {.prop_len = "C01", .prop_data = "C01", .windows = 4, .check_defs = 1, .check_user = 1, .rng = r, .file_kind = "sync"};
    verify_file(path, &m, &vo);
    /* run 2: same program without the calls that were rejected -> byte-identical file */
    if (!accepted_but_expected_reject && rejected) {
        struct jls_wr_s *w2 = NULL;
        if (!jls_wr_open(&w2, path2)) {
            for (size_t i = 0; i < p.n; ++i) {
                op_t o = p.ops[i];
                if (p.ops[i].rc != 0 && p.ops[i].expect_reject) continue;
                exec_op_sync(w2, &p, &o);
            }
            jls_wr_close(w2);
            size_t fd = 0;
            int same = files_identical(path, path2, &fd);
            if (same == 0) v_violation("C13", "rejected-call-changed-file", NULL, "file differs at byte %zu from the file written without the rejected calls", fd);
            v_count("C13", "byte_identical_comparisons", 1);
        }
        unlink(path2);
    }
    /* C17 on files with long strings and payloads around the 1 MiB / 2 MiB buffer sizes */
    if (!rc) { copy_check(path, r); v_feature("C17", 1, "closed|defs|usermax=%d|strmax=%d", usermax, strmax); }
    model_free(&m); prog_free(&p);
    free(defs); free(sigdefs); free(ldef.ops); free(ldata.ops); free(luser.ops); free(lrej.ops);
    for (int i = 0; i < 8; ++i) free(per[i].ops);
    if (!getenv("VERIF_KEEP")) unlink(path);
}

/* ----------------------------------- C15 -------------------------------------------- */
typedef struct { uint64_t h[JD_LEVELS]; size_t n[JD_LEVELS]; int64_t data_end; } sumsig_t;
static void summary_hashes(const char *path, int sig, sumsig_t *s, int *first_block_stored, size_t *omitted_blocks) {
    memset(s, 0, sizeof(*s));
    jd_t d;
    *first_block_stored = -1; *omitted_blocks = 0;
    if (jd_load(&d, path)) return;
    jd_decode(&d);
    for (int l = 1; l < JD_LEVELS; ++l) {
        const jd_list_t *sl = &d.sig[sig].summary[JD_TT_FSR][l];
        uint64_t h = FNV_INIT;
        for (size_t k = 0; k < sl->n; ++k) { const jd_chunk_t *c = &d.ch[sl->idx[k]]; h = fnv1a(c->payload, c->plen, h); }
        s->h[l] = h; s->n[l] = sl->n;
    }
    const jd_list_t *il = &d.sig[sig].index[JD_TT_FSR][1];
    int firstseen = 0;
    for (size_t k = 0; k < il->n; ++k) {
        const jd_chunk_t *c = &d.ch[il->idx[k]];
        if (c->plen < 16) continue;
        uint32_t cnt; memcpy(&cnt, c->payload + 8, 4);
        for (uint32_t e = 0; e < cnt && 16 + 8 * (e + 1) <= c->plen; ++e) {
            uint64_t off; memcpy(&off, c->payload + 16 + 8 * e, 8);
            if (!firstseen) { *first_block_stored = off != 0; firstseen = 1; }
            if (!off) (*omitted_blocks)++;
        }
    }
    if (!firstseen && d.sig[sig].data[JD_TT_FSR].n) *first_block_stored = 1;
    jd_free(&d);
}

static void case_c15(rng_t *r, ctx_t *c) {
    (void) c;
    const dtype_t *t;
    int small = rng_chance(r, 3, 5);
    if (small) { static const char *ty[] = {"u1", "u4", "i4", "u8", "i8"}; t = dtype_by_name(RNG_PICK(r, ty)); }
    else t = pick_type(r);
    struct jls_signal_def_s d, nm;
    int dcls = rng_chance(r, 1, 2) ? DEF_MINIMAL : DEF_TINYLEVELS;
    gen_def(r, &d, 4, 1, t, dcls);
    int fcls; int64_t first = gen_first_id(r, &fcls);
    d.sample_id_offset = first;
    def_normalised(&d, &nm);
    int64_t spd = nm.samples_per_data;
    int64_t nblocks = rng_range(r, 1, 40);
    int64_t n = nblocks * spd + (rng_chance(r, 1, 2) ? rng_range(r, 0, spd - 1) : 0);
    uint64_t pseed = rng_u64(r);
    int pat = t->bits <= 8 ? PAT_BLOCKCONST : (rng_chance(r, 1, 2) ? PAT_WALK : PAT_BLOCKCONST);
    int toggles = t->bits > 8 || rng_chance(r, 1, 3);
    /* one partition and one set of vseeds shared by both runs */
    span_t *sp; size_t k = gen_partition(r, (int) rng_below(r, PART_COUNT), first, n, (uint32_t) spd, &sp);
    uint64_t *vs = malloc(k * 8);
    uint8_t *tog = calloc(k, 1);
    for (size_t i = 0; i < k; ++i) { vs[i] = rng_u64(r); if (toggles && rng_chance(r, 1, 4)) tog[i] = (uint8_t) (1 + rng_below(r, 2)); }
    const char *path[2] = {v_path("c15a.jls"), v_path("c15b.jls")};
    model_t m[2]; prog_t p[2];
    for (int run = 0; run < 2; ++run) {
        prog_init(&p[run]);
        prog_add_source(&p[run], 1, "s");
        int si = prog_add_signal(&p[run], &d, "omit", "", pat, pseed);
        p[run].sig[p[run].ops[si].def].blk = (uint32_t) spd;
        for (size_t i = 0; i < k; ++i) {
            if (run == 1 && tog[i]) { op_t *o = prog_add(&p[run], OP_OMIT); o->id = 4; o->enable = tog[i] == 1; }
            op_t *o = prog_add(&p[run], OP_FSR); o->id = 4; o->sid = sp[i].sid; o->n = sp[i].n; o->vseed = vs[i];
        }
        run_sync(&p[run], &m[run], path[run]);
        decode_and_compare(path[run], &m[run], "C05", "sync", 0);
    }
    sample_prog("C15", &p[1]);
    sumsig_t sa, sb; int fa, fb; size_t oa, ob;
    summary_hashes(path[0], 4, &sa, &fa, &oa);
    summary_hashes(path[1], 4, &sb, &fb, &ob);
    char key[160], wj[300];
    snprintf(wj, sizeof(wj), "{\"type\":\"%s\",\"spd\":%lld,\"sdf\":%u,\"n\":%lld,\"first\":%lld,\"omitted_blocks_off\":%zu,\"omitted_blocks_on\":%zu,\"toggles\":%d}",
             t->name, (long long) spd, nm.sample_decimate_factor, (long long) n, (long long) first, oa, ob, toggles);
    v_feature("C15", ob + oa > 0, "%s|def=%s|pat=%d|toggles=%d|partial-tail=%d|omitted=%s", t->name, DEF_CLASS_NAME[dcls], pat, toggles, (int) ((n % spd) != 0), ob > 2 ? "many" : ob ? "some" : "none");
    for (int l = 1; l < JD_LEVELS; ++l) {
        if (sa.h[l] != sb.h[l] || sa.n[l] != sb.n[l]) {
            snprintf(key, sizeof(key), "summary-differs|level=%d|bits%s8", l, t->bits <= 8 ? "<=" : ">");
            v_violation("C15", key, wj, "level-%d SUMMARY payloads differ between omission on and off (%zu vs %zu chunks)", l, sb.n[l], sa.n[l]);
            break;
        }
    }
    if (fa == 0 || fb == 0) { snprintf(key, sizeof(key), "first-block-omitted|bits%s8", t->bits <= 8 ? "<=" : ">"); v_violation("C15", key, wj, "the first block of the signal is not stored"); }
    v_count("C15", "summary_levels_compared", 1);
    v_count("C15", "omitted_blocks_seen", (int64_t) (oa + ob));
    /* lengths and samples through the reader: exact for u1/u4/u8 constant blocks, right count + rc 0 for requested omission */
    for (int run = 0; run < 2; ++run) {
        verify_opts_t vo = {.prop_len = "C15", .prop_data = (t->code == JLS_DATATYPE_I4 || t->code == JLS_DATATYPE_I8) ? "C01" : "C15", .windows = 16, .rng = r, .file_kind = run ? "omit-on" : "omit-off"};
        verify_file(path[run], &m[run], &vo);
    }
    /* statistics answered purely from stored summaries are identical */
    {
        struct jls_rd_s *ra = NULL, *rb = NULL;
        if (!jls_rd_open(&ra, path[0]) && !jls_rd_open(&rb, path[1])) {
            int64_t la = 0, lb = 0;
            jls_rd_fsr_length(ra, 4, &la); jls_rd_fsr_length(rb, 4, &lb);
            int64_t sdf = nm.sample_decimate_factor;
            int64_t cnt = (la < lb ? la : lb) / sdf;
            if (cnt >= 25) {
                double *xa = calloc((size_t) cnt * 4, 8), *xb = calloc((size_t) cnt * 4, 8);
                int32_t r1 = jls_rd_fsr_statistics(ra, 4, 0, sdf, xa, cnt), r2 = jls_rd_fsr_statistics(rb, 4, 0, sdf, xb, cnt);
                /* the last entry is the "exact outer edge": the reader resolves it from level-0 samples, which are
                 * legitimately synthesised for blocks omitted on request -- it is not answered purely from summaries */
                if (r1 != r2 || (!r1 && memcmp(xa, xb, (size_t) (cnt - 1) * 32))) {
                    /* NaN-aware */
                    int diff = r1 != r2;
                    for (int64_t e = 0; e < (cnt - 1) * 4 && !diff; ++e) if (!(xa[e] == xb[e] || (xa[e] != xa[e] && xb[e] != xb[e]))) diff = 1;
                    if (diff) { snprintf(key, sizeof(key), "summary-statistics-differ|bits%s8", t->bits <= 8 ? "<=" : ">"); v_violation("C15", key, wj, "summary-aligned statistics differ between omission on and off (rc %d vs %d)", r2, r1); }
                }
                v_count("C15", "summary_aligned_statistics_compared", 1);
                free(xa); free(xb);
            }
        }
        if (ra) jls_rd_close(ra);
        if (rb) jls_rd_close(rb);
    }
    for (int run = 0; run < 2; ++run) { model_free(&m[run]); prog_free(&p[run]); unlink(path[run]); }
    free(sp); free(vs); free(tog);
}

/* ----------------------------------- mixed program (C05 / C17 / C19a) ---------------- */
static void build_mix(prog_t *p, rng_t *r, ctx_t *c, char *feat, size_t featn, int allow_omit) {
    prog_add_source(p, 1, "alpha");
    if (rng_chance(r, 1, 2)) prog_add_source(p, (uint16_t) rng_range(r, 2, 255), "beta");
    int nsig = (int) rng_range(r, 0, 3);
    oplist_t lists[8]; memset(lists, 0, sizeof(lists));
    size_t nl = 0; size_t fn = 0;
    feat[0] = 0;
    for (int i = 0; i < nsig; ++i) {
        const dtype_t *t = pick_type(r);
        int dcls = rng_chance(r, 1, 2) ? DEF_TINYLEVELS : (rng_chance(r, 1, 2) ? DEF_MINIMAL : DEF_SMALL);
        struct jls_signal_def_s d, nm;
        uint16_t sid = (uint16_t) (i * 7 + 1 + rng_below(r, 5));
        gen_def(r, &d, sid, 1, t, dcls);
        int fcls; int64_t first = gen_first_id(r, &fcls);
        d.sample_id_offset = first;
        def_normalised(&d, &nm);
        int pat = t->bits <= 8 && rng_chance(r, 1, 2) ? PAT_BLOCKCONST : PAT_WALK;
        int longzero = t->bits <= 8 && rng_chance(r, 1, 6);   /* an omitted run longer than the 32 KiB fill scratch (a copy re-creates it as a gap) */
        if (longzero) pat = PAT_LONGZERO;
        /* the definition goes into the signal's own list so that it may come late */
        size_t before = p->n;
        int si = prog_add_signal(p, &d, "mix", "u", pat, rng_u64(r));
        p->sig[p->ops[si].def].blk = nm.samples_per_data;
        *ol_add(&lists[nl], OP_SIGNAL) = p->ops[before];
        p->n = before;
        int lcls;
        int64_t n = rng_chance(r, 1, 8) ? 0 : gen_length(r, &nm, type_budget(t, c->budget / 2), &lcls);
        if (longzero) { int64_t need = 32768LL * 8 / t->bits + 8 * (int64_t) nm.samples_per_data; if (n < need) n = need; }
        if (n) {
            span_t *sp; size_t k = gen_partition(r, (int) rng_below(r, PART_COUNT), first, n, nm.samples_per_data, &sp);
            for (size_t q = 0; q < k; ++q) {
                if (allow_omit && rng_chance(r, 1, 12)) { op_t *o = ol_add(&lists[nl], OP_OMIT); o->id = sid; o->enable = (uint32_t) rng_below(r, 2); }
                op_t *o = ol_add(&lists[nl], OP_FSR); o->id = sid; o->sid = sp[q].sid; o->n = sp[q].n; o->vseed = rng_u64(r);
                if (rng_chance(r, 1, 10)) { op_t *a = ol_add(&lists[nl], OP_ANNO); a->id = sid; a->ts = sp[q].sid; a->y = 1.0f; a->atype = 1; a->stype = JLS_STORAGE_TYPE_STRING; a->dsize = (uint32_t) rng_range(r, 1, 30); a->dseed = rng_u64(r); }
                if (rng_chance(r, 1, 10)) { op_t *u = ol_add(&lists[nl], OP_UTC); u->id = sid; u->sid = sp[q].sid; u->utc = JLS_TIME_SECOND * 1000 + (sp[q].sid - first) * (JLS_TIME_SECOND / 1000); }
            }
            free(sp);
        }
        fn += (size_t) snprintf(feat + fn, featn - fn, "%s%s/%s/%s", i ? "+" : "", t->name, DEF_CLASS_NAME[dcls], n == 0 ? "empty" : "data");
        ++nl;
    }
    /* a variable-sample-rate signal (annotations only), id above or below the FSR signals */
    if (rng_chance(r, 1, 3)) {
        struct jls_signal_def_s d;
        uint16_t sid = rng_chance(r, 1, 2) ? 40 : 0;
        if (!sid) { sid = 1; for (size_t z = 0; z < p->nsig; ++z) if (p->sig[z].def.signal_id == 1) sid = 41; }
        gen_def(r, &d, sid, 1, dtype_by_name("f32"), DEF_MINIMAL);
        d.signal_type = JLS_SIGNAL_TYPE_VSR; d.sample_rate = 0;
        size_t before = p->n;
        prog_add_signal(p, &d, "vsr", "", PAT_WALK, 1);
        *ol_add(&lists[nl], OP_SIGNAL) = p->ops[before]; p->n = before;
        int nva = (int) rng_range(r, 0, 25); int64_t vts = rng_range(r, -100, 100);
        for (int i = 0; i < nva; ++i) { op_t *a = ol_add(&lists[nl], OP_ANNO); a->id = sid; vts += (int64_t) rng_below(r, 3); a->ts = vts; a->y = (float) i; a->atype = (uint8_t) rng_below(r, 4); a->stype = (uint8_t) rng_range(r, 1, 3); a->dsize = (uint32_t) rng_range(r, 1, 40); a->dseed = rng_u64(r); a->group = (uint8_t) i; }
        fn += (size_t) snprintf(feat + fn, featn - fn, "+vsr");
        ++nl;
    }
    /* global annotations and user data */
    int nanno = (int) rng_range(r, 0, 30);
    int64_t ts = 0;
    for (int i = 0; i < nanno; ++i) { op_t *a = ol_add(&lists[nl], OP_ANNO); a->id = 0; ts += (int64_t) rng_below(r, 3); a->ts = ts; a->y = NAN; a->atype = (uint8_t) rng_below(r, 4); a->stype = (uint8_t) rng_range(r, 1, 3); a->dsize = (uint32_t) rng_range(r, 1, 60); a->dseed = rng_u64(r); a->group = (uint8_t) i; }
    ++nl;
    int nuser = (int) rng_range(r, 0, 5);
    for (int i = 0; i < nuser; ++i) { op_t *u = ol_add(&lists[nl], OP_USER); u->meta = (uint16_t) rng_below(r, 4096); u->stype = (uint8_t) rng_range(r, 1, 3); u->dsize = (uint32_t) rng_range(r, 1, 3000); u->dseed = rng_u64(r);
        if (rng_chance(r, 1, 3)) { static const uint32_t bsz[] = {4040, 4048, 4056, 8136, 8144, 8152}; u->stype = JLS_STORAGE_TYPE_BINARY; u->dsize = bsz[rng_below(r, 6)] + (uint32_t) rng_below(r, 4); } }
    ++nl;
    fn += (size_t) snprintf(feat + fn, featn - fn, "|anno=%d|user=%d", nanno > 0, nuser > 0);
    op_t *ls[8]; size_t cn[8];
    for (size_t i = 0; i < nl; ++i) { ls[i] = lists[i].ops; cn[i] = lists[i].n; }
    prog_interleave(p, r, ls, cn, nl);
    for (size_t i = 0; i < nl; ++i) free(lists[i].ops);
}

static uint64_t file_hash(const char *path, size_t *size) {
    jd_t d;
    if (jd_load(&d, path)) return 0;
    uint64_t h = fnv1a(d.buf, d.size, FNV_INIT);
    if (size) *size = d.size;
    jd_free(&d);
    return h;
}

static void case_mix(rng_t *r, ctx_t *c) {
    prog_t p; prog_init(&p);
    char feat[300];
    build_mix(&p, r, c, feat, sizeof(feat), 1);
    model_t m;
    const char *path = v_path("mix.jls");
    run_sync(&p, &m, path);
    sample_prog("C05", &p);
    jd_t d; int levels = 0; size_t chunks = 0;
    if (!jd_load(&d, path)) { jd_decode(&d); for (int s = 1; s < 256; ++s) { int l = summary_levels(&d, s); if (l > levels) levels = l; } chunks = d.n; jd_free(&d); }
    v_feature("C05", chunks > 12, "sync|%s|levels=%d", feat, levels);
    decode_and_compare(path, &m, "C05", "sync", 0);
    /* C19 (a): reading never modifies a good file */
    size_t sz0 = 0; uint64_t h0 = file_hash(path, &sz0);
    iolog_start(path, 0, 0);
    verify_opts_t vo = {.prop_len = "C01", .prop_data = "C01", .windows = 10, .check_defs = 1, .check_anno = 1, .check_utc = 1, .check_user = 1, .check_stats = 1, .stats_requests = 12, .max_level = 3, .rng = r, .file_kind = "sync"};
    verify_file(path, &m, &vo);
    dump_t du; dump_file(path, &du, rng_u64(r));
    iolog_stop();
    size_t sz1 = 0; uint64_t h1 = file_hash(path, &sz1);
    if (g_io.n_write || g_io.n_trunc) v_violation("C19", "closed-file|reader-wrote", NULL, "reading a closed file caused %llu writes and %llu truncations", (unsigned long long) g_io.n_write, (unsigned long long) g_io.n_trunc);
    if (g_io.n_open_wr) v_violation("C19", "closed-file|opened-writable", NULL, "the reader opened a closed file with write access");
    if (h0 != h1 || sz0 != sz1) v_violation("C19", "closed-file|bytes-changed", NULL, "file bytes changed while reading (size %zu -> %zu)", sz0, sz1);
    v_count("C19", "closed_files_read", 1);
    v_feature("C19", chunks > 12, "closed|%s|levels=%d", feat, levels);
    copy_check(path, r);
    damaged_copy_check(path, r);
    int omit_used = 0; for (int s = 1; s < 256; ++s) if (m.sig[s].omit_ever) omit_used = 1;
    v_feature("C17", chunks > 12, "closed|%s|levels=%d|omit=%d", feat, levels, omit_used);
    if (!getenv("VERIF_KEEP")) unlink(path);
    model_free(&m); prog_free(&p);
}

/* ----------------------------------- far ---------------------------------------------
 * File positions beyond 2^32.  After the definitions and a few calls the append position is moved 4 GiB (and a bit) ahead
 * (jls_raw_chunk_seek on the writer's raw handle; iolog hides the hole from the real file), so that every offset the writer
 * stores or returns to from then on needs more than 32 bits.  The write-once monitor judges every write as usual (C14: a
 * position that lost its upper bits lands on stored chunks); the library's reader then reads the file through the same
 * view and is compared with the model (C01/C11/C12/C13: offsets in links, head tables and index entries). */
#include "jls/core.h"
#include "jls/raw.h"
static size_t g_far_at; static int64_t g_far_len; static int g_far_done;
static void far_after_op(size_t i, struct jls_wr_s *wr) {
    if (g_far_done || i != g_far_at) return;
    struct jls_core_s *core = (struct jls_core_s *) wr;      /* struct jls_wr_s { struct jls_core_s core; } */
    int64_t end = jls_raw_chunk_tell(core->raw);
    if (end != (int64_t) g_io.sh_n) { v_note("C14", "far: writer position %lld is not the end of the file (%zu): no jump", (long long) end, g_io.sh_n); g_far_done = -1; return; }
    iolog_far_hole(end, g_far_len);
    if (jls_raw_chunk_seek(core->raw, end + g_far_len)) { v_note("C14", "far: seek beyond the end refused"); iolog_far_hole(0, 0); g_far_done = -1; return; }
    g_far_done = 1;
}

static void case_far(rng_t *r, ctx_t *c) {
    prog_t p; prog_init(&p);
    char feat[300];
    build_mix(&p, r, c, feat, sizeof(feat), 1);
    size_t ndef = 0; while (ndef < p.n && (p.ops[ndef].kind == OP_SOURCE || p.ops[ndef].kind == OP_SIGNAL)) ++ndef;
    if (p.n < ndef + 4) { prog_free(&p); return; }
    g_far_at = (size_t) rng_range(r, (int64_t) ndef, (int64_t) (ndef + (p.n - ndef) / 3));
    static const int64_t lens[] = {1LL << 32, (1LL << 32) + 32768, (3LL << 32) + 8, 1LL << 40};
    g_far_len = RNG_PICK(r, lens); g_far_done = 0;
    iolog_far_hole(0, 0);
    model_t m; model_init(&m, &p);
    const char *path = v_path("far.jls");
    iolog_start(path, 1, 0);
    exec_opts_t eo = {.kind = WR_SYNC, .stop_after = -1, .after_op = far_after_op};
    int rc = exec_prog(&p, &m, path, &eo);
    iolog_stop();
    emit_io_counters("C14");
    if (g_far_done != 1) { iolog_far_hole(0, 0); unlink(path); model_free(&m); prog_free(&p); return; }
    v_count("C14", "far_files_written_beyond_4GiB", 1);
    v_feature("C14", 1, "far|len=2^%d|hdr-rewrites=%d|head-rewrites=%d", g_far_len >= (1LL << 40) ? 40 : 32, g_io.n_inplace_hdr > 0, g_io.n_inplace_head > 0);
    if (rc) v_violation("C14", "far|writer-close-error", NULL, "writer open/close returned %d on a file whose positions exceed 2^32", rc);
    /* the reader, through the same view of the file */
    iolog_start(path, 0, 0);
    verify_opts_t vo = {.prop_len = "C01", .prop_data = "C01", .windows = 10, .check_defs = 1, .check_anno = 1, .check_utc = 1, .check_user = 1, .check_stats = 1, .stats_requests = 8, .max_level = 3, .rng = r, .file_kind = "far"};
    verify_file(path, &m, &vo);
    iolog_stop();
    if (g_io.n_write || g_io.n_trunc) v_violation("C19", "closed-file|reader-wrote|far", NULL, "reading a closed file with positions beyond 2^32 caused %llu writes and %llu truncations", (unsigned long long) g_io.n_write, (unsigned long long) g_io.n_trunc);
    iolog_far_hole(0, 0);
    if (!getenv("VERIF_KEEP")) unlink(path);
    model_free(&m); prog_free(&p);
}

/* ------------------------------------------------------------------------------------- */
static void run_case(uint64_t idx, void *vctx) {
    ctx_t *c = vctx;
    rng_t r; rng_seed(&r, vmix(vmix(g_seed, idx), fnv1a(c->mode, strlen(c->mode), FNV_INIT)));
    jls_quiet();
    if (!strcmp(c->mode, "c01")) case_c01(&r, c);
    else if (!strcmp(c->mode, "c02")) case_c02(&r, c);
    else if (!strcmp(c->mode, "c09")) case_c09(&r, c);
    else if (!strcmp(c->mode, "c11")) case_c11(&r, c);
    else if (!strcmp(c->mode, "c12")) case_c12(&r, c);
    else if (!strcmp(c->mode, "c13")) case_c13(&r, c);
    else if (!strcmp(c->mode, "c15")) case_c15(&r, c);
    else if (!strcmp(c->mode, "mix")) case_mix(&r, c);
    else if (!strcmp(c->mode, "far")) case_far(&r, c);
    else { fprintf(stderr, "unknown mode %s\n", c->mode); exit(2); }
}

int main(int argc, char **argv) {
    v_init(argc, argv);
    ctx_t c;
    c.mode = v_arg(argc, argv, "--mode", "c01");
    c.thorough = (int) v_arg_i(argc, argv, "--thorough", 0);
    c.budget = v_arg_i(argc, argv, "--budget", c.thorough ? (2 << 20) : (512 << 10));
    g_check = c.mode;
    run_opts_t ro = {.cpu_s = (int) v_arg_i(argc, argv, "--cpu", !strcmp(c.mode, "c02") ? 600 : 20),   /* c02: the long-double oracle is O(samples) per request: the heaviest thorough case (6 levels, 3 M samples of i24) needs about 2 CPU-minutes */ .wall_s = (int) v_arg_i(argc, argv, "--wall", !strcmp(c.mode, "c02") ? 2400 : 120),   /* a wall-clock overrun is inconclusive, never a violation: generous on a loaded machine */ .no_fork = v_has_arg(argc, argv, "--no-fork"), .as_mb = 0};
#if !defined(__SANITIZE_ADDRESS__) && !defined(__SANITIZE_THREAD__)
    ro.as_mb = 6144;
#endif
    uint64_t first = (uint64_t) v_arg_i(argc, argv, "--first", 0), count = (uint64_t) v_arg_i(argc, argv, "--count", 10), stride = (uint64_t) v_arg_i(argc, argv, "--stride", 1);
    return v_run_cases(run_case, &c, first, count, stride, &ro) ? 2 : 0;
}
