/*
 * Controlled scheduler ("engine ii") for the threaded writer: link-time interposition of
 * pthread_create/join/mutex_lock/mutex_unlock/cond_wait/cond_signal, nanosleep and clock_gettime.
 * Every managed thread runs only while it holds the baton; at every wrapped call the scheduler
 * picks the next thread from the enabled set with a seeded policy.  Mutexes and condition
 * variables are modelled; time is virtual.  Only interleavings at real synchronisation /
 * suspension points are produced.
 *
 * Mode 0 ("engine i"): the wrappers pass through to the real functions, optionally injecting
 * seeded delays between critical sections (used under ThreadSanitizer with real threads).
 */
#ifndef COOP_H_
#define COOP_H_
#include <stdint.h>
#include <stddef.h>

enum { POL_RANDOM = 0, POL_PCT, POL_STARVE_CONSUMER, POL_STARVE_PRODUCER, POL_ROUND_ROBIN, POL_COUNT };
extern const char *POL_NAME[POL_COUNT];

typedef struct {
    uint64_t seed;
    int policy;
    int pct_depth;            /* number of priority change points */
    double time_jump_prob;    /* probability per scheduling point of advancing virtual time to the next wake-up although threads are enabled */
    int64_t max_steps;        /* scheduling points per case before "no progress" */
    int64_t max_steps_per_call;
    int64_t unfair_until_ns;  /* virtual time after which starvation policies and time jumps stop: an enabled thread is
                               * not starved forever (liveness claims need a fair suffix); 0 = 40 virtual seconds */
} coop_cfg_t;

typedef struct {
    int64_t steps, switches, time_jumps, sleeps, mutex_blocks, cond_waits, cond_signals;
    int64_t vclock_ns;
    uint64_t signature;       /* hash of the sequence of scheduling choices */
    int deadlock;             /* set when the run ended in a deadlock */
    int no_progress;
    char state[256];          /* wait-for description when deadlock / no progress */
} coop_stats_t;

void coop_begin(const coop_cfg_t *cfg);      /* the calling thread becomes managed thread 0 ("app0") */
void coop_end(coop_stats_t *out);
int coop_active(void);
int coop_self(void);                         /* managed thread id or -1 */
int coop_threads_alive(void);                /* managed, not finished */
int coop_library_threads_alive(void);        /* of those, the ones the library created (writer thread) */
const char *coop_thread_name(int id);
/* addresses of the mutexes held by the calling thread; returns count */
int coop_held(const void **out, int max);
/* called by the harness around API calls: resets the per-call step budget */
void coop_call_begin(const char *api);
void coop_call_end(void);
/* callback when the scheduler detects a deadlock or exhausted step budget; must not return */
extern void (*coop_on_stuck)(const char *kind, const char *state);
int64_t coop_now_ns(void);
/* scheduling point for a blocking system call (write/fsync) issued by a managed thread */
void coop_preempt(void);
/* the next pthread_create is issued by the harness for an application thread (not by the library) */
void coop_mark_app_thread(void);

/* engine i: seeded delay injection in pass-through mode */
void coop_inject_delays(uint64_t seed, unsigned permille, unsigned max_us);

#endif
