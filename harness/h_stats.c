/*
 * C20: statistics accumulators are consistent under add, compute and combine.
 * Oracle: exact-ish reference in long double (two-pass); tolerances from the standard error
 * analysis: |mean - mu| <= 8 n eps max|x|, |s - S| <= 8 n eps sum(x^2).
 */
#define _GNU_SOURCE
#include "vcommon.h"
#include "jls/statistics.h"
#include <stdlib.h>
#include <string.h>
#include <math.h>
#include <float.h>

typedef struct { int thorough; } ctx_t;

typedef struct { uint64_t n; long double mean, S, mn, mx, amax, sumsq; } ref_t;

static void reference(const double *x, size_t a, size_t b, ref_t *r) {
    memset(r, 0, sizeof(*r));
    r->n = b - a;
    if (!r->n) return;
    long double sum = 0;
    r->mn = r->mx = x[a];
    for (size_t i = a; i < b; ++i) {
        long double v = x[i];
        sum += v;
        if (v < r->mn) r->mn = v;
        if (v > r->mx) r->mx = v;
        if (fabsl(v) > r->amax) r->amax = fabsl(v);
        r->sumsq += v * v;
    }
    r->mean = sum / r->n;
    for (size_t i = a; i < b; ++i) { long double d = x[i] - r->mean; r->S += d * d; }
}

static const char *shape_name[] = {"constant", "alternating", "ramp", "large-offset", "random", "two-clusters"};
static const char *method_name[] = {"compute_f64", "compute_f32", "add", "combine-split", "combine-tree", "combine-chain"};

static void gen(rng_t *r, double *x, size_t n, int shape, double mag, int as_f32) {
    for (size_t i = 0; i < n; ++i) {
        double u = rng_unit(r) * 2 - 1;
        double v;
        switch (shape) {
            case 0: v = mag; break;
            case 1: v = (i & 1) ? mag : -mag; break;
            case 2: v = mag * (double) i / (double) (n ? n : 1); break;
            case 3: v = mag * 1e6 + mag * u; break;
            case 4: v = mag * u; break;
            default: v = (rng_chance(r, 1, 2) ? mag : -mag * 3) + mag * 1e-3 * u; break;
        }
        if (as_f32) v = (double) (float) v;
        x[i] = v;
    }
}

static int check_against(const struct jls_statistics_s *s, const ref_t *r, int method, int shape, const char *wj) {
    char key[128];
    const long double eps = ldexpl(1.0L, -52);
    int bad = 0;
    if (s->k != r->n) { snprintf(key, sizeof(key), "count|%s", method_name[method]); v_violation("C20", key, wj, "count %llu, expected %llu", (unsigned long long) s->k, (unsigned long long) r->n); return 1; }
    if (!r->n) return 0;
    if ((long double) s->min != r->mn || (long double) s->max != r->mx) {
        snprintf(key, sizeof(key), "minmax|%s", method_name[method]);
        v_violation("C20", key, wj, "min/max %.17g/%.17g, expected %.17Lg/%.17Lg", s->min, s->max, r->mn, r->mx); bad = 1;
    }
    long double n = (long double) r->n;
    long double tol_m = 8 * n * eps * r->amax;
    if (!(fabsl((long double) s->mean - r->mean) <= tol_m)) {
        snprintf(key, sizeof(key), "mean|%s|%s", method_name[method], shape_name[shape]);
        v_violation("C20", key, wj, "mean %.17g, reference %.17Lg (error %.3Lg, allowed %.3Lg)", s->mean, r->mean, fabsl((long double) s->mean - r->mean), tol_m); bad = 1;
    }
    long double tol_s = 8 * n * eps * r->sumsq;
    if (!(fabsl((long double) s->s - r->S) <= tol_s)) {
        snprintf(key, sizeof(key), "s|%s|%s", method_name[method], shape_name[shape]);
        v_violation("C20", key, wj, "s %.17g, reference %.17Lg (error %.3Lg, allowed %.3Lg)", s->s, r->S, fabsl((long double) s->s - r->S), tol_s); bad = 1;
    }
    struct jls_statistics_s t = *s;
    double var = jls_statistics_var(&t);
    if (!(var >= 0)) { snprintf(key, sizeof(key), "var-negative|%s", method_name[method]); v_violation("C20", key, wj, "jls_statistics_var = %.17g", var); bad = 1; }
    if (!((long double) s->mean >= r->mn && (long double) s->mean <= r->mx)) {   /* the statement lists min <= mean <= max without a rounding allowance */
        snprintf(key, sizeof(key), "mean-outside-minmax|%s", method_name[method]);
        v_violation("C20", key, wj, "mean %.17g outside [%.17Lg, %.17Lg]", s->mean, r->mn, r->mx); bad = 1;
    }
    return bad;
}

static void compute_part(struct jls_statistics_s *s, const double *x, size_t a, size_t b) {
    jls_statistics_compute_f64(s, x + a, b - a);
}

/* random binary grouping of [a,b) */
static void combine_tree(rng_t *r, struct jls_statistics_s *out, const double *x, size_t a, size_t b, int depth) {
    if (b - a <= 3 || depth > 12 || rng_chance(r, 1, 5)) { compute_part(out, x, a, b); return; }
    size_t m = a + 1 + (size_t) rng_below(r, b - a - 1);
    struct jls_statistics_s l, rr;
    combine_tree(r, &l, x, a, m, depth + 1);
    combine_tree(r, &rr, x, m, b, depth + 1);
    jls_statistics_combine(out, &l, &rr);
}

static int same_bits(const struct jls_statistics_s *a, const struct jls_statistics_s *b) {
    return a->k == b->k && !memcmp(&a->mean, &b->mean, 8) && !memcmp(&a->s, &b->s, 8) && !memcmp(&a->min, &b->min, 8) && !memcmp(&a->max, &b->max, 8);
}

static void run_case(uint64_t idx, void *vctx) {
    ctx_t *c = vctx;
    rng_t r; rng_seed(&r, vmix(g_seed, idx ^ 0xC20));
    size_t n;
    switch (rng_below(&r, 6)) {
        case 0: n = (size_t) rng_below(&r, 4); break;
        case 1: n = (size_t) rng_range(&r, 2, 64); break;
        case 2: n = (size_t) rng_range(&r, 2, 64); break;
        case 3: n = (size_t) rng_range(&r, 65, 1000); break;
        default: n = (size_t) rng_range(&r, 1000, c->thorough ? 10000 : 4000); break;
    }
    int shape = (int) rng_below(&r, 6);
    int as_f32 = rng_chance(&r, 1, 3);
    /* f64 sequences also far beyond the float range (all samples above FLT_MAX or below FLT_MIN); squares stay finite */
    int mexp = (int) rng_range(&r, -30, 30);
    if (!as_f32 && rng_chance(&r, 1, 3)) mexp = (int) rng_range(&r, -140, 140);
    double mag = pow(10.0, mexp) * (1 + rng_unit(&r));
    double *x = malloc((n + 1) * sizeof(double));
    gen(&r, x, n, shape, mag, as_f32);
    ref_t ref; reference(x, 0, n, &ref);
    char wj[200];
    snprintf(wj, sizeof(wj), "{\"n\":%zu,\"shape\":\"%s\",\"magnitude\":\"1e%d\",\"f32\":%d}", n, shape_name[shape], mexp, as_f32);
    v_feature("C20", n > 1, "n=%s|%s|mag=%s|f32=%d", n <= 3 ? "0-3" : n <= 64 ? "<=64" : n <= 1000 ? "<=1000" : ">1000", shape_name[shape], mexp < -10 ? "tiny" : mexp > 10 ? "huge" : "mid", as_f32);
    int64_t cmp = 0;
    struct jls_statistics_s s;
    /* whole */
    v_api("jls_statistics_compute_f64");
    jls_statistics_compute_f64(&s, x, n);
    check_against(&s, &ref, 0, shape, wj); ++cmp;
    if (as_f32) {
        float *xf = malloc((n + 1) * sizeof(float));
        for (size_t i = 0; i < n; ++i) xf[i] = (float) x[i];
        v_api("jls_statistics_compute_f32");
        jls_statistics_compute_f32(&s, xf, n);
        check_against(&s, &ref, 1, shape, wj); ++cmp;
        free(xf);
    }
    /* add one at a time */
    v_api("jls_statistics_add");
    jls_statistics_reset(&s);
    for (size_t i = 0; i < n; ++i) jls_statistics_add(&s, x[i]);
    check_against(&s, &ref, 2, shape, wj); ++cmp;
    /* all split points for n <= 64, random otherwise */
    v_api("jls_statistics_combine");
    size_t nsplit = n <= 64 ? n + 1 : 24;
    for (size_t q = 0; q < nsplit; ++q) {
        size_t m = n <= 64 ? q : (size_t) rng_below(&r, n + 1);
        struct jls_statistics_s a, b, t, t2;
        compute_part(&a, x, 0, m); compute_part(&b, x, m, n);
        jls_statistics_combine(&t, &a, &b);
        if (check_against(&t, &ref, 3, shape, wj)) break;
        ++cmp;
        /* aliasing: result may overwrite either operand */
        t2 = a; jls_statistics_combine(&t2, &t2, &b);
        if (!same_bits(&t, &t2)) { v_violation("C20", "alias|tgt==a", wj, "combine(tgt=a) differs from out-of-place at split %zu", m); break; }
        t2 = b; jls_statistics_combine(&t2, &a, &t2);
        if (!same_bits(&t, &t2)) { v_violation("C20", "alias|tgt==b", wj, "combine(tgt=b) differs from out-of-place at split %zu", m); break; }
        /* empty operand is the identity */
        struct jls_statistics_s e; jls_statistics_reset(&e);
        jls_statistics_combine(&t2, &t, &e);
        if (t.k && !same_bits(&t, &t2)) { v_violation("C20", "identity|b-empty", wj, "combine(x, empty) != x"); break; }
        jls_statistics_combine(&t2, &e, &t);
        if (t.k && !same_bits(&t, &t2)) { v_violation("C20", "identity|a-empty", wj, "combine(empty, x) != x"); break; }
        cmp += 4;
    }
    /* random groupings */
    for (int q = 0; q < 6 && n > 3; ++q) {
        struct jls_statistics_s t;
        combine_tree(&r, &t, x, 0, n, 0);
        if (check_against(&t, &ref, 4, shape, wj)) break;
        ++cmp;
    }
    /* chain of small pieces, accumulated in place (as the reader does) */
    if (n > 1) {
        struct jls_statistics_s acc, piece; jls_statistics_reset(&acc);
        size_t pos = 0;
        while (pos < n) {
            size_t ln = 1 + (size_t) rng_below(&r, 16);
            if (pos + ln > n) ln = n - pos;
            compute_part(&piece, x, pos, pos + ln);
            jls_statistics_combine(&acc, &acc, &piece);
            pos += ln;
        }
        check_against(&acc, &ref, 5, shape, wj); ++cmp;
    }
    v_api("");
    v_count("C20", "comparisons", cmp);
    if ((idx % 512) == 0) v_sample("C20", wj);
    free(x);
}

int main(int argc, char **argv) {
    v_init(argc, argv);
    ctx_t c = {.thorough = (int) v_arg_i(argc, argv, "--thorough", 0)};
    g_check = "stats";
    /* cheap, non-crashing cases: run them in batches inside one child */
    run_opts_t ro = {.cpu_s = 300, .wall_s = 900, .no_fork = 1};
    if (v_has_arg(argc, argv, "--fork")) ro.no_fork = 0;
    uint64_t first = (uint64_t) v_arg_i(argc, argv, "--first", 0), count = (uint64_t) v_arg_i(argc, argv, "--count", 100), stride = (uint64_t) v_arg_i(argc, argv, "--stride", 1);
    return v_run_cases(run_case, &c, first, count, stride, &ro) ? 2 : 0;
}
