/* Common runtime for the verification harnesses: PRNG, JSON-lines output, fork-per-case runner. */
#ifndef VCOMMON_H_
#define VCOMMON_H_
#include <stdint.h>
#include <stddef.h>
#include <stdio.h>

/* ---------- PRNG (splitmix64 / xoshiro256**) ---------- */
typedef struct { uint64_t s[4]; } rng_t;
uint64_t vhash64(uint64_t x);
uint64_t vmix(uint64_t a, uint64_t b);
void rng_seed(rng_t *r, uint64_t seed);
uint64_t rng_u64(rng_t *r);
/* uniform in [0, n) ; n>0 */
uint64_t rng_below(rng_t *r, uint64_t n);
/* uniform in [lo, hi] */
int64_t rng_range(rng_t *r, int64_t lo, int64_t hi);
int rng_chance(rng_t *r, unsigned num, unsigned den);
double rng_unit(rng_t *r);
#define RNG_PICK(r, arr) ((arr)[rng_below((r), sizeof(arr) / sizeof((arr)[0]))])

uint64_t fnv1a(const void *p, size_t n, uint64_t h);
#define FNV_INIT 0xcbf29ce484222325ULL

/* ---------- JSON line builder ---------- */
typedef struct { char *b; size_t n, cap; int first; } jb_t;
void jb_init(jb_t *j);
void jb_free(jb_t *j);
void jb_obj_begin(jb_t *j);
void jb_obj_end(jb_t *j);
void jb_key(jb_t *j, const char *k);
void jb_str(jb_t *j, const char *k, const char *v);
void jb_strn(jb_t *j, const char *k, const char *v, size_t n);
void jb_int(jb_t *j, const char *k, int64_t v);
void jb_u64(jb_t *j, const char *k, uint64_t v);
void jb_dbl(jb_t *j, const char *k, double v);
void jb_raw(jb_t *j, const char *k, const char *rawjson);
void jb_fmt(jb_t *j, const char *k, const char *fmt, ...) __attribute__((format(printf, 3, 4)));
/* print as one line to stdout and reset */
void jb_emit(jb_t *j);

/* ---------- records ---------- */
extern uint64_t g_seed;       /* VERIF_SEED mixed base seed */
extern uint64_t g_case;       /* current case index */
extern uint64_t g_outer_case; /* nested runs: enclosing case index */
extern int g_nested;          /* set while running a nested v_run_cases inside a case */
extern const char *g_check;   /* current check / mode name */

/* violation: key must be stable across seeds (classification, not data) */
void v_violation(const char *prop, const char *key, const char *witness_json, const char *fmt, ...) __attribute__((format(printf, 4, 5)));
/* coverage feature of the current case */
void v_feature(const char *prop, int nontrivial, const char *fmt, ...) __attribute__((format(printf, 3, 4)));
void v_count(const char *prop, const char *name, int64_t v);
void v_count_flush(void);
void v_sample(const char *prop, const char *json);
void v_note(const char *prop, const char *fmt, ...) __attribute__((format(printf, 2, 3)));
int v_violation_count(void);

/* name of the API call in flight; lives in memory shared with the supervising parent */
void v_api(const char *name);
/* free-form context for crash triage (shared with parent) */
void v_ctx(const char *fmt, ...) __attribute__((format(printf, 1, 2)));

/* ---------- scratch ---------- */
const char *v_scratch(void);               /* directory (tmpfs), exists */
void v_scratch_set(const char *dir);
/* path inside scratch; static buffer ring of 8 */
const char *v_path(const char *name);

/* ---------- case runner ---------- */
typedef void (*case_fn)(uint64_t idx, void *ctx);
typedef struct {
    int cpu_s;      /* RLIMIT_CPU for the child (load independent) */
    int wall_s;     /* wall-clock watchdog; firing alone = inconclusive */
    int no_fork;    /* run in-process (debugging / replay) */
    size_t as_mb;   /* RLIMIT_AS in MiB, 0 = none */
} run_opts_t;
/* runs cases first..first+count-1 stepping by 'stride'; each in a forked child */
int v_run_cases(case_fn fn, void *ctx, uint64_t first, uint64_t count, uint64_t stride, const run_opts_t *o);

/* arg helpers */
const char *v_arg(int argc, char **argv, const char *name, const char *dflt);
int64_t v_arg_i(int argc, char **argv, const char *name, int64_t dflt);
int v_has_arg(int argc, char **argv, const char *name);
/* common init: parses --seed --scratch; sets g_seed */
void v_init(int argc, char **argv);

#endif
