/*
 * C10: API misuse yields error codes, never crashes, hangs, stray memory access or leaks.
 * A seeded op-sequence interpreter over the public API (writer, threaded writer, reader, copy, raw,
 * statistics, crc) with boundary ids, windows, lengths, enum values and definition parameters.
 * Caller buffers are heap blocks of exactly the documented size.  One process per sequence, built
 * with AddressSanitizer + UBSan subset; LeakSanitizer is run explicitly once every handle is closed.
 */
#define _GNU_SOURCE
#include "vcommon.h"
#include "model.h"
#include "gen.h"
#include "jls/writer.h"
#include "jls/threaded_writer.h"
#include "jls/reader.h"
#include "jls/copy.h"
#include "jls/raw.h"
#include "jls/statistics.h"
#include "jls/crc32c.h"
#include "jls/ec.h"
#include "jls/time.h"
#include <stdlib.h>
#include <sys/mman.h>
#include <string.h>
#include <math.h>
#include <unistd.h>
#include <fcntl.h>
#include <signal.h>
#include <sys/resource.h>

static char hostile_desc[230];   /* sticky: every later context line of the case names the hostile file it may be working on */
#define CTX(...) do { char t_[300]; snprintf(t_, sizeof(t_), __VA_ARGS__); if (hostile_desc[0]) (v_ctx)("%s ; %s", hostile_desc, t_); else (v_ctx)("%s", t_); } while (0)

#if defined(__SANITIZE_ADDRESS__)
int __lsan_do_recoverable_leak_check(void);
#define HAVE_LSAN 1
#else
#define HAVE_LSAN 0
#endif

typedef struct { int thorough; int hostile; } ctx_t;

static int64_t n_calls, n_errors, n_ok;
static uint32_t api_seen[64]; static int n_api_seen;

static int32_t note(const char *api, int32_t rc) {
    ++n_calls;
    if (rc) ++n_errors; else ++n_ok;
    uint32_t h = (uint32_t) fnv1a(api, strlen(api), FNV_INIT);
    int k;
    for (k = 0; k < n_api_seen; ++k) if (api_seen[k] == h) break;
    if (k == n_api_seen && n_api_seen < 64) { api_seen[n_api_seen++] = h; v_feature("C10", 1, "api|%s", api); }
    if (rc && (g_case % 8) == 0) v_feature("C10", 1, "error|%s|rc=%d", api, rc);
    return rc;
}
#define CALL(api, expr) (v_api(api), note(api, (int32_t) (expr)))

static uint16_t pick_id(rng_t *r, const uint16_t *defined, int ndef) {
    static const uint16_t odd[] = {0, 255, 256, 300, 4095, 65535, 1, 2, 254};
    if (ndef && rng_chance(r, 3, 5)) return defined[rng_below(r, (uint64_t) ndef)];
    if (rng_chance(r, 1, 2)) return RNG_PICK(r, odd);
    return (uint16_t) rng_below(r, 260);
}

static uint32_t pick_u32(rng_t *r) {
    static const uint32_t v[] = {0, 1, 9, 10, 11, 255, 256, 65535, 65536, 65537, 0x7fffffffu, 0x80000000u, 0xffffffffu, 100, 1000};
    if (rng_chance(r, 2, 3)) return RNG_PICK(r, v);
    return (uint32_t) rng_below(r, 5000);
}

static int64_t pick_i64(rng_t *r, int64_t len) {
    static const int64_t v[] = {0, 1, -1, -1000, INT64_MAX, INT64_MIN + 1, 1LL << 40, 7};
    switch (rng_below(r, 4)) {
        case 0: return RNG_PICK(r, v);
        case 1: return len + rng_range(r, -2, 2);
        default: return len > 0 ? rng_range(r, 0, len) : rng_range(r, 0, 10);
    }
}

static char *pick_string(rng_t *r, int allow_huge) {
    switch (rng_below(r, allow_huge ? 8 : 6)) {
        case 0: return NULL;
        case 1: return strdup("");
        case 2: return strdup("plain");
        case 3: return strdup("\xc3\xa9\xe2\x82\xac utf8");
        case 4: { char *s = malloc(70001); memset(s, 'x', 70000); s[70000] = 0; return s; }
        case 5: return strdup("a\x1f" "b");
        case 6: { size_t n = (1 << 20) + 100; char *s = malloc(n + 1); memset(s, 'y', n); s[n] = 0; return s; }
        default: { size_t n = 600000; char *s = malloc(n + 1); memset(s, 'z', n); s[n] = 0; return s; }
    }
}

static int32_t anno_cb(void *u, const struct jls_annotation_s *a) { (void) a; int *k = u; return (*k)-- <= 0; }
static int32_t user_cb(void *u, uint16_t m, enum jls_storage_type_e st, uint8_t *d, uint32_t n) { (void) m; (void) st; volatile uint8_t x = 0; for (uint32_t i = 0; i < n; ++i) x ^= d[i]; (void) x; int *k = u; return (*k)-- <= 0; }
static int32_t utc_cb(void *u, const struct jls_utc_summary_entry_s *e, uint32_t n) { volatile int64_t x = 0; for (uint32_t i = 0; i < n; ++i) x += e[i].sample_id; (void) x; int *k = u; return (*k)-- <= 0; }

static uint32_t sig_types[256];   /* data type of defined signals (0 = undefined) */

/* ------------------------------ writer phase ---------------------------------------- */
static void writer_phase(rng_t *r, const char *path, int threaded, int big) {
    struct jls_wr_s *wr = NULL; struct jls_twr_s *tw = NULL;
    const char *openpath = rng_chance(r, 1, 25) ? "/nonexistent-dir/x.jls" : path;
    int32_t rc = threaded ? CALL("jls_twr_open", jls_twr_open(&tw, openpath)) : CALL("jls_wr_open", jls_wr_open(&wr, openpath));
    if (rc) return;
    uint16_t srcs[8]; int nsrc = 0; uint16_t sigs[16]; int nsig = 0;
    int nops = (int) rng_range(r, 5, 60);
    for (int q = 0; q < nops; ++q) {
        int kind = (int) rng_below(r, 100);
        if (kind < 8) {
            struct jls_source_def_s s; memset(&s, 0, sizeof(s));
            s.source_id = pick_id(r, srcs, nsrc);
            char *st[5];
            for (int i = 0; i < 5; ++i) st[i] = pick_string(r, big && i == 0);
            s.name = st[0]; s.vendor = st[1]; s.model = st[2]; s.version = st[3]; s.serial_number = st[4];
            rc = threaded ? CALL("jls_twr_source_def", jls_twr_source_def(tw, &s)) : CALL("jls_wr_source_def", jls_wr_source_def(wr, &s));
            if (!rc && nsrc < 8) srcs[nsrc++] = s.source_id;
            for (int i = 0; i < 5; ++i) free(st[i]);
        } else if (kind < 22) {
            struct jls_signal_def_s d; memset(&d, 0, sizeof(d));
            d.signal_id = pick_id(r, sigs, nsig);
            d.source_id = rng_chance(r, 3, 4) ? (nsrc ? srcs[rng_below(r, (uint64_t) nsrc)] : 0) : pick_id(r, srcs, nsrc);
            d.signal_type = rng_chance(r, 9, 10) ? (uint8_t) rng_below(r, 2) : (uint8_t) rng_below(r, 256);
            d.data_type = rng_chance(r, 9, 10) ? DTYPES[rng_below(r, 15)].code : (rng_chance(r, 1, 3) ? (uint32_t) rng_u64(r) : rng_chance(r, 1, 2) ? (uint32_t) (rng_below(r, 8) | (rng_below(r, 3) << 16)) /* zero width */ : (DTYPES[rng_below(r, 15)].code | (uint32_t) (rng_below(r, 40) << 16)));
            d.sample_rate = rng_chance(r, 4, 5) ? 1000 : pick_u32(r);
            int extreme = rng_chance(r, 1, 4), hugeblock = 0;
            d.samples_per_data = extreme ? pick_u32(r) : (uint32_t) rng_below(r, 300);
            d.sample_decimate_factor = extreme ? pick_u32(r) : (uint32_t) rng_below(r, 100);
            if (!extreme && rng_chance(r, 1, 6)) { static const uint32_t mid[] = {2700, 5000, 20000, 70000}; d.sample_decimate_factor = RNG_PICK(r, mid); d.samples_per_data = d.sample_decimate_factor * (uint32_t) rng_range(r, 1, 3); }   /* statistics over > 65536 samples are then served from raw samples */
            if (rng_chance(r, 1, 14)) {
                /* data blocks of 256 MiB .. 1 GiB: accepted or rejected, the bit count of such a block does not fit 32 bits from 512 MiB on.
                 * 8-bit and wider types only (the writer also keeps one double per sample of a block). */
                static const uint32_t wide[] = {JLS_DATATYPE_F64, JLS_DATATYPE_U64, JLS_DATATYPE_I32, JLS_DATATYPE_F32, JLS_DATATYPE_U16, JLS_DATATYPE_U8, JLS_DATATYPE_I24};
                d.data_type = RNG_PICK(r, wide);
                d.signal_type = JLS_SIGNAL_TYPE_FSR;
                uint64_t bits = (d.data_type >> 8) & 0xff;
                static const uint64_t blockbits[] = {1ULL << 32, (1ULL << 32) + 4096, (1ULL << 32) - 4096, 1ULL << 31, 3ULL << 31, (1ULL << 33) - 8192, 1ULL << 33};
                uint64_t bb = RNG_PICK(r, blockbits);
                d.samples_per_data = (uint32_t) (bb / bits);
                d.sample_decimate_factor = 4096;
                extreme = 0;
                hugeblock = 1;
            }
            d.entries_per_summary = extreme ? pick_u32(r) : (uint32_t) rng_below(r, 200);
            d.summary_decimate_factor = extreme ? pick_u32(r) : (uint32_t) rng_below(r, 50);
            if (hugeblock) {   /* a summary chunk that holds a whole block's entries, or the block is cut down to the summary chunk */
                d.entries_per_summary = (d.samples_per_data / 4096 + 1) * (uint32_t) rng_range(r, 1, 2);
                d.summary_decimate_factor = 16;
            }
            d.annotation_decimate_factor = rng_chance(r, 1, 3) ? pick_u32(r) : (uint32_t) rng_below(r, 20);
            d.utc_decimate_factor = rng_chance(r, 1, 3) ? pick_u32(r) : (uint32_t) rng_below(r, 20);
            if (!big) { if (d.annotation_decimate_factor > 100000) d.annotation_decimate_factor = 70000; if (d.utc_decimate_factor > 100000) d.utc_decimate_factor = 70000; }
            d.sample_id_offset = pick_i64(r, 0);
            char *nm = pick_string(r, 0), *un = pick_string(r, 0);
            d.name = nm; d.units = un;
            CTX("signal_def id=%u src=%u type=%u dt=0x%x spd=%u sdf=%u eps=%u sumdf=%u adf=%u udf=%u", d.signal_id, d.source_id, d.signal_type, d.data_type, d.samples_per_data, d.sample_decimate_factor,
                  d.entries_per_summary, d.summary_decimate_factor, d.annotation_decimate_factor, d.utc_decimate_factor);
            rc = threaded ? CALL("jls_twr_signal_def", jls_twr_signal_def(tw, &d)) : CALL("jls_wr_signal_def", jls_wr_signal_def(wr, &d));
            if (!rc && nsig < 16 && d.signal_id < 256) { sigs[nsig++] = d.signal_id; sig_types[d.signal_id] = d.signal_type == JLS_SIGNAL_TYPE_FSR ? d.data_type : 0xffffffffu; }
            free(nm); free(un);
        } else if (kind < 60) {
            uint16_t id = pick_id(r, sigs, nsig);
            const dtype_t *t = (id < 256 && sig_types[id] && sig_types[id] != 0xffffffffu) ? dtype_by_code(sig_types[id]) : NULL;
            int bits = t ? t->bits : (int) (1u << rng_below(r, 7));
            uint32_t n = rng_chance(r, 1, 8) ? 0 : (uint32_t) rng_range(r, 1, rng_chance(r, 1, 6) ? 70000 : 300);
            size_t nbytes = ((size_t) n * (size_t) bits + 7) / 8;
            uint8_t *buf = malloc(nbytes ? nbytes : 1);     /* exactly sized */
            for (size_t i = 0; i < nbytes; ++i) buf[i] = (uint8_t) (i * 7 + q);
            int64_t sid = rng_chance(r, 3, 4) ? (int64_t) q * 300 : pick_i64(r, q * 300);
            /* a forward jump makes the writer store that many fill samples: keep the gap bounded (1M samples), the call is legitimate however long it takes */
            if (sid > (int64_t) q * 300 + (1 << 20) || sid < -(1LL << 50)) sid = rng_range(r, -100000, 100000);
            CTX("fsr id=%u sid=%lld n=%u bits=%d", id, (long long) sid, n, bits);
            if (threaded && t && rng_chance(r, 1, 30)) {
                /* a very large length: 2^32 bits of samples and a little more, from a buffer that really is that large (untouched zero pages) */
                uint64_t hn = ((1ULL << 32) + (uint64_t) rng_below(r, 3) * 64 * 8) / (uint64_t) t->bits + (uint64_t) rng_below(r, 2);
                if (hn <= UINT32_MAX) {
                    size_t hb = (size_t) ((hn * (uint64_t) t->bits + 7) / 8);
                    void *huge = mmap(NULL, hb, PROT_READ, MAP_PRIVATE | MAP_ANONYMOUS | MAP_NORESERVE, -1, 0);
                    if (huge != MAP_FAILED) {
                        CTX("huge fsr id=%u n=%llu bits=%d", id, (unsigned long long) hn, t->bits);
                        CALL("jls_twr_fsr", jls_twr_fsr(tw, id, sid, huge, (uint32_t) hn));
                        /* the writer thread may still hold the message: let it finish before the buffer goes away */
                        CALL("jls_twr_flush", jls_twr_flush(tw));
                        munmap(huge, hb);
                    }
                }
            }
            if (threaded) {
                /* the threaded writer copies n * bits(signal) bytes: the caller must size for the signal it names; undefined ids copy nothing useful */
                if (t || id >= 256) CALL("jls_twr_fsr", jls_twr_fsr(tw, id, sid, buf, t ? n : 0));
                else {
                    /* an id that names no FSR signal has no documented sample size: a buffer holding n of the widest samples (64 bit) is as large as any reading of the header asks for */
                    uint32_t m = rng_chance(r, 1, 3) ? 0 : (n > 2000 ? 2000 : n);
                    uint8_t *wide = malloc(m ? (size_t) m * 8 : 1);
                    memset(wide, 0x5a, m ? (size_t) m * 8 : 1);
                    CALL("jls_twr_fsr", jls_twr_fsr(tw, id, sid, wide, m));
                    free(wide);
                }
            } else if (rng_chance(r, 1, 5) && (!t || t->code == JLS_DATATYPE_F32 || n == 0 || bits == 32)) CALL("jls_wr_fsr_f32", jls_wr_fsr_f32(wr, id, sid, (const float *) buf, n));
            else CALL("jls_wr_fsr", jls_wr_fsr(wr, id, sid, buf, n));
            free(buf);
        } else if (kind < 65) {
            uint16_t id = pick_id(r, sigs, nsig);
            if (threaded) CALL("jls_twr_fsr_omit_data", jls_twr_fsr_omit_data(tw, id, (uint32_t) rng_below(r, 3))); else CALL("jls_wr_fsr_omit_data", jls_wr_fsr_omit_data(wr, id, (uint32_t) rng_below(r, 3)));
        } else if (kind < 80) {
            uint16_t id = pick_id(r, sigs, nsig);
            int st = rng_chance(r, 9, 10) ? (int) rng_range(r, 1, 3) : (int) rng_below(r, 300);
            int at = rng_chance(r, 9, 10) ? (int) rng_below(r, 4) : (int) rng_below(r, 1000);
            uint32_t sz = rng_chance(r, 1, 20) && big ? (1u << 20) + (uint32_t) rng_range(r, -1, 1) : (uint32_t) rng_below(r, 200);
            uint8_t *d = gen_payload(st == JLS_STORAGE_TYPE_BINARY ? 1 : 2, sz ? sz : 1, (uint64_t) q);
            if (st != JLS_STORAGE_TYPE_BINARY) d[sz ? sz - 1 : 0] = 0;
            float y = rng_chance(r, 1, 3) ? NAN : (float) q;
            if (threaded) {
                /* the size argument only describes BINARY data: for every other storage type, valid or not, it may be anything */
                uint32_t sarg = (st == JLS_STORAGE_TYPE_BINARY) ? (sz ? sz : 1) : twr_size_arg((uint8_t) JLS_STORAGE_TYPE_STRING, sz ? sz : 1, rng_u64(r));
                rc = CALL("jls_twr_annotation", jls_twr_annotation(tw, id, pick_i64(r, q), y, at, (uint8_t) q, st, d, sarg));
                if (!rc && (st > 255 || at > 255)) v_violation("C10", "enum-out-of-range-accepted|jls_twr_annotation", NULL, "storage type %d, annotation type %d: the call returned 0 (the synchronous writer rejects it)", st, at);
            }
            else CALL("jls_wr_annotation", jls_wr_annotation(wr, id, pick_i64(r, q), y, at, (uint8_t) q, st, d, st == JLS_STORAGE_TYPE_BINARY ? sz : 0));
            free(d);
        } else if (kind < 88) {
            uint16_t id = pick_id(r, sigs, nsig);
            if (threaded) CALL("jls_twr_utc", jls_twr_utc(tw, id, pick_i64(r, q), pick_i64(r, q))); else CALL("jls_wr_utc", jls_wr_utc(wr, id, pick_i64(r, q), pick_i64(r, q)));
        } else if (kind < 96) {
            int st = rng_chance(r, 9, 10) ? (int) rng_below(r, 4) : (int) rng_below(r, 300);
            static const uint32_t sizes[] = {0, 1, 17, 4096, (1 << 20) - 1, 1 << 20, (1 << 20) + 1, 3 << 20};
            uint32_t sz = big ? RNG_PICK(r, sizes) : (uint32_t) rng_below(r, 5000);
            uint8_t *d = gen_payload(st == JLS_STORAGE_TYPE_BINARY ? 1 : 2, sz ? sz : 1, (uint64_t) q);
            if (st != JLS_STORAGE_TYPE_BINARY) d[sz ? sz - 1 : 0] = 0;
            uint16_t meta = (uint16_t) rng_below(r, 65536);
            if (threaded) {
                uint32_t sarg = (st == JLS_STORAGE_TYPE_BINARY) ? (sz ? sz : 1) : twr_size_arg((uint8_t) JLS_STORAGE_TYPE_STRING, sz ? sz : 1, rng_u64(r));
                rc = CALL("jls_twr_user_data", jls_twr_user_data(tw, meta, st, d, sarg));
                if (!rc && st > 255) v_violation("C10", "enum-out-of-range-accepted|jls_twr_user_data", NULL, "storage type %d: the call returned 0 (the synchronous writer rejects it)", st);
            } else CALL("jls_wr_user_data", jls_wr_user_data(wr, meta, st, (sz || (st != JLS_STORAGE_TYPE_BINARY && st != JLS_STORAGE_TYPE_INVALID) || rng_chance(r, 1, 2)) ? d : NULL, st == JLS_STORAGE_TYPE_BINARY ? sz : 0));
            free(d);
        } else {
            if (threaded) CALL("jls_twr_flush", jls_twr_flush(tw)); else CALL("jls_wr_flush", jls_wr_flush(wr));
        }
    }
    if (threaded) { jls_twr_flags_set(tw, jls_twr_flags_get(tw) | (rng_chance(r, 1, 2) ? JLS_TWR_FLAG_DROP_ON_OVERFLOW : 0)); CALL("jls_twr_close", jls_twr_close(tw)); }
    else CALL("jls_wr_close", jls_wr_close(wr));
}

/* ------------------------------ reader phase ---------------------------------------- */
static void reader_phase(rng_t *r, const char *path) {
    struct jls_rd_s *rd = NULL;
    if (CALL("jls_rd_open", jls_rd_open(&rd, path))) return;
    struct jls_source_def_s *src; struct jls_signal_def_s *sg; uint16_t n = 0;
    CALL("jls_rd_sources", jls_rd_sources(rd, &src, &n));
    uint16_t ids[256]; int nid = 0; uint16_t nsg = 0;
    if (!CALL("jls_rd_signals", jls_rd_signals(rd, &sg, &nsg))) for (uint16_t i = 0; i < nsg && nid < 256; ++i) ids[nid++] = sg[i].signal_id;
    struct jls_signal_def_s defs[256]; memset(defs, 0, sizeof(defs));
    for (int i = 0; i < nid; ++i) jls_rd_signal(rd, ids[i], &defs[ids[i] & 255]);
    int nops = (int) rng_range(r, 5, 50);
    for (int q = 0; q < nops; ++q) {
        uint16_t id = pick_id(r, ids, nid);
        int64_t len = 0;
        struct jls_signal_def_s def; memset(&def, 0, sizeof(def));
        int kind = (int) rng_below(r, 9);
        switch (kind) {
            case 0: CALL("jls_rd_signal", jls_rd_signal(rd, id, rng_chance(r, 1, 5) ? NULL : &def)); break;
            case 1: CALL("jls_rd_fsr_length", jls_rd_fsr_length(rd, id, &len)); break;
            case 2: case 3: {
                int have = !jls_rd_fsr_length(rd, id, &len) && id < 256;
                int bits = have ? (int) ((defs[id].data_type >> 8) & 0xff) : 64;
                if (!bits) bits = 64;
                int64_t start = pick_i64(r, len), cnt = pick_i64(r, len);
                /* the buffer is sized exactly as documented for the requested length; absurd lengths get a small
                 * buffer: such a call must be rejected before it touches it */
                int64_t sized = cnt;
                if (sized < 0) sized = 0;
                int absurd = !have || start < 0 || cnt <= 0 || start > len || cnt > len - start;
                if (absurd) sized = 4;
                if (sized > (1 << 24)) sized = 4;
                size_t nb = bits >= 8 ? (size_t) sized * (size_t) (bits / 8) : (size_t) (1 + (sized * bits) / 8);
                uint8_t *buf = malloc(nb ? nb : 1);
                CTX("rd_fsr id=%u start=%lld cnt=%lld len=%lld bits=%d absurd=%d", id, (long long) start, (long long) cnt, (long long) len, bits, absurd);
                if (kind == 3 && (!have || defs[id].data_type == JLS_DATATYPE_F32)) CALL("jls_rd_fsr_f32", jls_rd_fsr_f32(rd, id, start, (float *) buf, cnt));
                else if (kind == 3) CALL("jls_rd_fsr_f32", jls_rd_fsr_f32(rd, id, start, (float *) buf, 0 * cnt + (absurd ? cnt : 1)));   /* wrong type: must be rejected before touching the buffer */
                else CALL("jls_rd_fsr", jls_rd_fsr(rd, id, start, buf, cnt));
                free(buf);
                break;
            }
            case 4: {
                int have = !jls_rd_fsr_length(rd, id, &len);
                int64_t start = pick_i64(r, len), incr = pick_i64(r, len > 0 ? len / 4 : 4), cnt = rng_chance(r, 1, 4) ? pick_i64(r, 10) : rng_range(r, 0, 40);
                if (have && len > 4 && rng_chance(r, 1, 4)) { cnt = rng_range(r, 1, 3); incr = len / cnt - rng_range(r, 0, 3); start = rng_range(r, 0, len - incr * cnt); }   /* the largest windows that fit */
                int64_t sized = cnt;
                int absurd = !have || start < 0 || incr <= 0 || cnt <= 0 || cnt > 100000 || incr > len || start > len || cnt > (len - start) / (incr > 0 ? incr : 1);
                if (absurd || sized < 0) sized = 1;
                double *out = malloc((size_t) sized * 4 * sizeof(double));
                CTX("rd_stats id=%u start=%lld incr=%lld cnt=%lld len=%lld absurd=%d", id, (long long) start, (long long) incr, (long long) cnt, (long long) len, absurd);
                CALL("jls_rd_fsr_statistics", jls_rd_fsr_statistics(rd, id, start, incr, out, cnt));
                free(out);
                break;
            }
            case 5: { int k = (int) rng_below(r, 5); CALL("jls_rd_annotations", jls_rd_annotations(rd, id, pick_i64(r, 100), rng_chance(r, 1, 12) ? NULL : anno_cb, &k)); break; }
            case 6: { int k = (int) rng_below(r, 5); CALL("jls_rd_utc", jls_rd_utc(rd, id, pick_i64(r, 100), rng_chance(r, 1, 12) ? NULL : utc_cb, &k)); break; }
            case 7: { int k = (int) rng_below(r, 5); CALL("jls_rd_user_data", jls_rd_user_data(rd, rng_chance(r, 1, 12) ? NULL : user_cb, &k)); break; }
            default: {
                int64_t out = 0;
                if (rng_chance(r, 1, 2)) CALL("jls_rd_sample_id_to_timestamp", jls_rd_sample_id_to_timestamp(rd, id, pick_i64(r, 1000), &out));
                else CALL("jls_rd_timestamp_to_sample_id", jls_rd_timestamp_to_sample_id(rd, id, pick_i64(r, 1000), &out));
                break;
            }
        }
    }
    v_api("jls_rd_close");
    jls_rd_close(rd);
}

static void make_bad_file(rng_t *r, const char *path, const char *good) {
    int kind = (int) rng_below(r, 4);
    int fd = open(path, O_WRONLY | O_CREAT | O_TRUNC, 0600);
    if (fd < 0) return;
    if (kind == 1) { const char *t = "this is not a jls file at all, just text\n"; if (write(fd, t, strlen(t)) < 0) {} }
    else if (kind >= 2) {
        /* truncated / damaged copy of the good file */
        int g = open(good, O_RDONLY);
        if (g >= 0) {
            uint8_t *b = malloc(1 << 22); ssize_t n = read(g, b, 1 << 22); close(g);
            if (n > 0) {
                size_t keep = kind == 2 ? (size_t) rng_below(r, (uint64_t) n) : (size_t) n;
                if (kind == 3) for (int i = 0; i < 3; ++i) b[rng_below(r, (uint64_t) n)] ^= (uint8_t) (1u << rng_below(r, 8));
                if (write(fd, b, keep) < 0) {}
            }
            free(b);
        }
    }
    close(fd);
}

/* A hostile file that is consistent as far as the CRCs go - what a caller of the raw API (which computes the CRCs itself)
 * can write: a copy of the good file in which a few header fields (links, tag, chunk_meta, previous length) and payload
 * fields (entry counts, offsets, timestamps, sizes) are replaced and the header / payload CRC recomputed.  Nothing the
 * reader, the repair or the copy does with such a file may crash, hang or touch memory outside its allocations; what
 * they return is not judged here. */
static uint32_t rd_u32(const uint8_t *p) { return (uint32_t) p[0] | ((uint32_t) p[1] << 8) | ((uint32_t) p[2] << 16) | ((uint32_t) p[3] << 24); }
static void wr_u32(uint8_t *p, uint32_t v) { p[0] = (uint8_t) v; p[1] = (uint8_t) (v >> 8); p[2] = (uint8_t) (v >> 16); p[3] = (uint8_t) (v >> 24); }
static void wr_u64(uint8_t *p, uint64_t v) { wr_u32(p, (uint32_t) v); wr_u32(p + 4, (uint32_t) (v >> 32)); }
static uint32_t disk_size(uint32_t n) { if (!n) return 0; uint32_t pad = (n + 4) & 7; if (pad) pad = 8 - pad; return n + pad + 4; }

static int make_hostile_file(rng_t *r, const char *path, const char *good) {
    int g = open(good, O_RDONLY);
    if (g < 0) return 0;
    size_t cap = 1 << 22;
    uint8_t *b = malloc(cap); ssize_t n = read(g, b, cap); close(g);
    if (n < 64 || (size_t) n >= cap) { free(b); return 0; }
    enum { MAXC = 4096 };
    uint64_t *offs = malloc(sizeof(uint64_t) * MAXC); int nc = 0;
    for (uint64_t o = 32; o + 32 <= (uint64_t) n && nc < MAXC; ) {
        struct jls_chunk_header_s h; memcpy(&h, b + o, 32);
        if (jls_crc32c_hdr(&h) != h.crc32) break;
        offs[nc++] = o;
        o += 32 + disk_size(h.payload_length);
    }
    if (nc < 2) { free(b); free(offs); return 0; }
    int edits = (int) rng_range(r, 1, 3), done = 0;
    char what[200]; what[0] = 0;
    for (int e = 0; e < edits; ++e) {
        uint64_t o = offs[rng_below(r, (uint64_t) nc)];
        uint8_t *hp = b + o;
        uint32_t plen = rd_u32(hp + 20);
        uint64_t other = offs[rng_below(r, (uint64_t) nc)];
        uint64_t vals[] = {0, 1, 2, 7, 8, 0xFF, 0x100, 0xFFFF, 0x10000, 0x7FFFFFFFu, 0x80000000u, 0xFFFFFFFFu, 0x7FFFFFFFFFFFFFFFull, 0x8000000000000000ull,
                           0xFFFFFFFFFFFFFFFFull, (uint64_t) n, (uint64_t) n - 8, other, other + 8, o, rng_u64(r), rng_below(r, 5000)};
        uint64_t v = vals[rng_below(r, sizeof(vals) / sizeof(vals[0]))];
        int in_payload = plen >= 4 && o + 32 + disk_size(plen) <= (uint64_t) n && rng_chance(r, 2, 3);
        if (in_payload) {
            /* a 1-, 2-, 4- or 8-byte field; the leading fields of a payload (the chunk-specific headers) most of the time */
            uint32_t w = 1u << rng_below(r, 4); if (w > plen) w = 4;
            uint32_t span = rng_chance(r, 3, 4) && plen > 64 ? 64 : plen;
            uint32_t at = (uint32_t) rng_below(r, span - w + 1); if (rng_chance(r, 3, 4)) at &= ~(w - 1);
            uint8_t *pp = hp + 32;
            if (rng_chance(r, 1, 4)) { uint64_t cur = 0; memcpy(&cur, pp + at, w); v = cur + (rng_chance(r, 1, 2) ? 1 : (uint64_t) -1); }
            memcpy(pp + at, &v, w);
            uint32_t pad = (plen + 4) & 7; if (pad) pad = 8 - pad;
            wr_u32(pp + plen + pad, jls_crc32c(pp, plen));
            snprintf(what + strlen(what), sizeof(what) - strlen(what), " tag%u@%llu.payload[%u:%u]=%llx", hp[16], (unsigned long long) o, at, w, (unsigned long long) v);
        } else {
            switch (rng_below(r, 6)) {
                case 0: wr_u64(hp + 0, v); break;                          /* item_next */
                case 1: wr_u64(hp + 8, v); break;                          /* item_prev */
                case 2: hp[16] = rng_chance(r, 1, 2) ? b[other + 16] : (uint8_t) v; break;     /* tag */
                case 3: hp[18] = (uint8_t) v; hp[19] = (uint8_t) (v >> 8); break;               /* chunk_meta */
                case 4: wr_u32(hp + 24, (uint32_t) v); break;              /* payload_prev_length */
                default: hp[17] = (uint8_t) v; break;                      /* reserved */
            }
            struct jls_chunk_header_s h; memcpy(&h, hp, 32);
            wr_u32(hp + 28, jls_crc32c_hdr(&h));
            snprintf(what + strlen(what), sizeof(what) - strlen(what), " tag%u@%llu.header=%llx", hp[16], (unsigned long long) o, (unsigned long long) v);
        }
        done++;
    }
    size_t keep = (size_t) n;
    if (rng_chance(r, 1, 4)) { /* and unclosed: cut at a chunk boundary so that the repair runs over it */
        keep = (size_t) offs[rng_range(r, nc / 2, nc - 1)];
        snprintf(what + strlen(what), sizeof(what) - strlen(what), " cut@%zu", keep);
    }
    snprintf(hostile_desc, sizeof(hostile_desc), "hostile file (CRC-consistent):%s", what);
    v_ctx("%s", hostile_desc);
    int fd = open(path, O_WRONLY | O_CREAT | O_TRUNC, 0600);
    if (fd >= 0) { if (write(fd, b, keep) < 0) {} close(fd); }
    free(b); free(offs);
    v_count("C10", "hostile_crc_consistent_files", 1);
    return done;
}

static void raw_phase(rng_t *r, const char *path) {
    struct jls_raw_s *raw = NULL;
    static const char *modes[] = {"r", "r", "a", "x", ""};
    const char *mode = RNG_PICK(r, modes);
    if (CALL("jls_raw_open", jls_raw_open(&raw, rng_chance(r, 1, 10) ? "/nonexistent/raw.jls" : path, mode))) { if (raw) jls_raw_close(raw); return; }
    if (!raw) return;
    struct jls_chunk_header_s h;
    for (int q = 0; q < 30; ++q) {
        switch (rng_below(r, 12)) {
            case 9: case 10: case 11: {
                /* raw writes (only meaningful when opened for writing; in "r" mode they must fail cleanly): a whole chunk, or
                 * header and payload separately with a length argument that may differ from the header's - the payload buffer
                 * is sized to the header, as raw.h documents */
                struct jls_chunk_header_s w; memset(&w, 0, sizeof(w));
                static const uint32_t ls[] = {0, 1, 16, 255, 256, 257, 268, 269, 300, 4096, 5000};
                w.tag = rng_chance(r, 3, 4) ? JLS_TAG_USER_DATA : (uint8_t) rng_below(r, 256);
                w.chunk_meta = (uint16_t) rng_below(r, 65536);
                w.payload_length = RNG_PICK(r, ls);
                uint8_t *b = malloc(w.payload_length ? w.payload_length : 1);
                memset(b, 0x5a, w.payload_length ? w.payload_length : 1);
                if (rng_chance(r, 1, 3)) CALL("jls_raw_wr", jls_raw_wr(raw, &w, b));
                else {
                    uint32_t larg = rng_chance(r, 1, 2) ? w.payload_length : RNG_PICK(r, ls);
                    CTX("raw wr_header len=%u then wr_payload arg=%u", w.payload_length, larg);
                    if (!CALL("jls_raw_wr_header", jls_raw_wr_header(raw, &w))) CALL("jls_raw_wr_payload", jls_raw_wr_payload(raw, larg, b));
                }
                free(b);
                break;
            }
            case 0: CALL("jls_raw_rd_header", jls_raw_rd_header(raw, rng_chance(r, 1, 4) ? NULL : &h)); break;
            case 1: { uint32_t sz = (uint32_t) rng_below(r, 600); uint8_t *b = malloc(sz ? sz : 1); CALL("jls_raw_rd_payload", jls_raw_rd_payload(raw, sz, b)); free(b); break; }
            case 2: { uint32_t sz = (uint32_t) rng_below(r, 3000); uint8_t *b = malloc(sz ? sz : 1); CALL("jls_raw_rd", jls_raw_rd(raw, &h, sz, b)); free(b); break; }
            case 3: CALL("jls_raw_chunk_next", jls_raw_chunk_next(raw)); break;
            case 4: CALL("jls_raw_chunk_prev", jls_raw_chunk_prev(raw)); break;
            case 5: CALL("jls_raw_item_next", jls_raw_item_next(raw)); break;
            case 6: CALL("jls_raw_item_prev", jls_raw_item_prev(raw)); break;
            case 7: {
                int64_t to = rng_chance(r, 1, 2) ? (int64_t) (32 + 8 * rng_below(r, 400)) : pick_i64(r, 5000);
                /* a write behind a seek to 2^40 makes a sparse terabyte file, which a linear scan then reads for hours:
                 * legitimate, but not a termination question - far seeks only on files opened for reading */
                if (mode[0] != 'r' && to > (1 << 24)) to = 1 << 20;
                CALL("jls_raw_chunk_seek", jls_raw_chunk_seek(raw, to)); break;
            }
            default: CALL("jls_raw_chunk_scan", jls_raw_chunk_scan(raw)); break;
        }
    }
    (void) jls_raw_chunk_tell(raw); (void) jls_raw_chunk_tell_end(raw);
    CALL("jls_raw_close", jls_raw_close(raw));
}

static void misc_phase(rng_t *r) {
    struct jls_statistics_s a, b, t;
    jls_statistics_reset(&a); jls_statistics_reset(&b);
    size_t n = (size_t) rng_below(r, 300);
    double *x = malloc((n ? n : 1) * sizeof(double)); float *f = malloc((n ? n : 1) * sizeof(float));
    for (size_t i = 0; i < n; ++i) { x[i] = (double) i * 1.5; f[i] = (float) i; }
    v_api("jls_statistics_compute_f64"); jls_statistics_compute_f64(&a, x, n);
    v_api("jls_statistics_compute_f32"); jls_statistics_compute_f32(&b, f, n);
    v_api("jls_statistics_combine"); jls_statistics_combine(&t, &a, &b); jls_statistics_combine(&a, &a, &b);
    v_api("jls_statistics_var"); (void) jls_statistics_var(&t);
    jls_statistics_invalid(&t); jls_statistics_add(&a, 1.0); jls_statistics_copy(&t, &a);
    free(x); free(f);
    uint32_t len = (uint32_t) rng_below(r, 5000); unsigned al = (unsigned) rng_below(r, 8);
    uint8_t *p = malloc(len + al + 1);
    for (uint32_t i = 0; i < len + al; ++i) p[i] = (uint8_t) i;
    v_api("jls_crc32c"); (void) jls_crc32c(p + al, len);
    free(p);
    ++n_calls;
}

/* a long signal with a large sample decimation: statistics over windows of more than 65536 samples (the reader's minimum
 * scratch size) are computed from raw samples because the window is shorter than 25 summary entries */
static void long_window_phase(rng_t *r, const char *path) {
    struct jls_wr_s *wr = NULL;
    if (CALL("jls_wr_open", jls_wr_open(&wr, path))) return;
    static const uint32_t sdfs[] = {2700, 5000, 10000, 40000, 100000};
    static const char *tn[] = {"u8", "f32", "i16", "u1"};
    const dtype_t *t = dtype_by_name(RNG_PICK(r, tn));
    struct jls_signal_def_s d; memset(&d, 0, sizeof(d));
    d.signal_id = 1; d.source_id = 0; d.signal_type = JLS_SIGNAL_TYPE_FSR; d.data_type = t->code; d.sample_rate = 1000; d.name = "long"; d.units = "";
    d.sample_decimate_factor = RNG_PICK(r, sdfs); d.samples_per_data = d.sample_decimate_factor * (uint32_t) rng_range(r, 1, 2);
    CALL("jls_wr_signal_def", jls_wr_signal_def(wr, &d));
    int64_t total = rng_range(r, 70000, 400000), pos = 0;
    while (pos < total) {
        int64_t n = rng_range(r, 1, total - pos < 150000 ? total - pos : 150000);
        size_t nbytes = ((size_t) n * (size_t) t->bits + 7) / 8;
        uint8_t *buf = malloc(nbytes);
        if (t->kind == 2) { float *f = (float *) buf; for (int64_t i = 0; i < n; ++i) f[i] = (float) ((pos + i) % 1000); }
        else for (size_t i = 0; i < nbytes; ++i) buf[i] = (uint8_t) (i * 13 + (size_t) pos);
        CALL("jls_wr_fsr", jls_wr_fsr(wr, 1, pos, buf, (uint32_t) n));
        free(buf);
        pos += n;
    }
    CALL("jls_wr_close", jls_wr_close(wr));
    struct jls_rd_s *rd = NULL;
    if (CALL("jls_rd_open", jls_rd_open(&rd, path))) return;
    int64_t len = 0; jls_rd_fsr_length(rd, 1, &len);
    for (int q = 0; q < 12 && len > 0; ++q) {
        int64_t cnt = rng_range(r, 1, 4);
        int64_t incr = rng_chance(r, 1, 2) ? len / cnt - rng_range(r, 0, 5) : rng_range(r, 60000, 70000 < len ? 70000 : len);
        if (incr < 1 || incr * cnt > len) continue;
        int64_t start = rng_range(r, 0, len - incr * cnt);
        double *out = malloc((size_t) cnt * 4 * sizeof(double));   /* exactly as documented */
        CTX("long-window statistics start=%lld incr=%lld cnt=%lld len=%lld sdf=%u", (long long) start, (long long) incr, (long long) cnt, (long long) len, d.sample_decimate_factor);
        CALL("jls_rd_fsr_statistics", jls_rd_fsr_statistics(rd, 1, start, incr, out, cnt));
        free(out);
    }
    CALL("jls_rd_close", (jls_rd_close(rd), 0));
}

/* The hostile-file family is a FIXED set: case k is the same file whatever VERIF_SEED says (own seed, synchronous writer only,
 * so that the written file and the altered copy are the same bytes on every run).  The reader behind the CRC checks was not
 * written for inconsistent content; the crash sites this set reaches are either repaired or listed one by one in
 * known_findings.json, and a seeded family would keep finding new ones on new seeds (see DESIGN.md 11.10). */
static void run_hostile_case(uint64_t idx) {
    rng_t r; rng_seed(&r, vmix(0x4057113F11E5ULL, idx));
    jls_quiet();
    memset(sig_types, 0, sizeof(sig_types));
    hostile_desc[0] = 0;
    { struct rlimit fl = { (rlim_t) 1 << 30, (rlim_t) 1 << 30 }; setrlimit(RLIMIT_FSIZE, &fl); signal(SIGXFSZ, SIG_IGN); }
    const char *good = v_path("api.jls"), *bad = v_path("api-bad.jls"), *cp = v_path("api-copy.jls");
    unlink(good); unlink(bad); unlink(cp);
    writer_phase(&r, good, 0, rng_chance(&r, 1, 15));
    int files = (int) rng_range(&r, 1, 3);
    for (int f = 0; f < files; ++f) {
        if (!make_hostile_file(&r, bad, good)) continue;
        if (rng_chance(&r, 1, 3)) CALL("jls_copy", jls_copy(bad, cp, NULL, NULL, NULL, NULL));
        reader_phase(&r, bad);
        if (rng_chance(&r, 1, 4)) raw_phase(&r, bad);
    }
    v_api("leak-check");
    v_count("C10", "api_calls", n_calls); v_count("C10", "calls_returning_error", n_errors); v_count("C10", "calls_returning_success", n_ok);
    v_count("C10", "hostile_sequences", 1);
    v_count_flush();
    fflush(stdout);
    unlink(good); unlink(bad); unlink(cp);
#if HAVE_LSAN
    if (__lsan_do_recoverable_leak_check()) { fflush(stderr); _exit(23); }
    v_count("C10", "leak_checks_clean", 1);
    v_count_flush();
#endif
}

static void run_case(uint64_t idx, void *vctx) {
    ctx_t *c = vctx;
    if (c->hostile) { run_hostile_case(idx); return; }
    rng_t r; rng_seed(&r, vmix(g_seed, idx ^ 0xC10));
    jls_quiet();
    memset(sig_types, 0, sizeof(sig_types));
    hostile_desc[0] = 0;
    /* a hostile file may announce a gap of 2^56 samples, which jls_copy fills faithfully: bound what one case can write */
    { struct rlimit fl = { (rlim_t) 1 << 30, (rlim_t) 1 << 30 }; setrlimit(RLIMIT_FSIZE, &fl); signal(SIGXFSZ, SIG_IGN); }
    const char *good = v_path("api.jls"), *bad = v_path("api-bad.jls"), *cp = v_path("api-copy.jls");
    unlink(good); unlink(bad); unlink(cp);
    int threaded = rng_chance(&r, 1, 4);
    int big = rng_chance(&r, 1, c->thorough ? 6 : 15);
    if ((idx % 16) == 5) { long_window_phase(&r, cp); unlink(cp); }
    writer_phase(&r, good, threaded, big);
    int phases = (int) rng_range(&r, 1, 4);
    for (int ph = 0; ph < phases; ++ph) {
        switch (rng_below(&r, 6)) {
            case 0: case 1: reader_phase(&r, good); break;
            case 2: make_bad_file(&r, bad, good); reader_phase(&r, bad); break;
            case 3: CALL("jls_copy", jls_copy(rng_chance(&r, 1, 4) ? bad : good, cp, NULL, NULL, NULL, NULL)); if (rng_chance(&r, 1, 2)) reader_phase(&r, cp); break;
            case 4: raw_phase(&r, rng_chance(&r, 1, 3) ? bad : good); break;
            default: misc_phase(&r); break;
        }
    }
    v_api("leak-check");
    v_count("C10", "api_calls", n_calls); v_count("C10", "calls_returning_error", n_errors); v_count("C10", "calls_returning_success", n_ok);
    v_count("C10", "sequences", 1);
    v_count_flush();
    fflush(stdout);
    unlink(good); unlink(bad); unlink(cp);
#if HAVE_LSAN
    /* every handle that was opened has been closed (or the open failed): nothing may still be allocated by the library */
    if (__lsan_do_recoverable_leak_check()) { fflush(stderr); _exit(23); }
    v_count("C10", "leak_checks_clean", 1);
    v_count_flush();
#endif
}

int main(int argc, char **argv) {
    v_init(argc, argv);
    ctx_t c = {.thorough = (int) v_arg_i(argc, argv, "--thorough", 0), .hostile = (int) v_arg_i(argc, argv, "--hostile", 0)};
    g_check = c.hostile ? "api-hostile" : "api";
    run_opts_t ro = {.cpu_s = 30, .wall_s = 120, .no_fork = v_has_arg(argc, argv, "--no-fork")};
    uint64_t first = (uint64_t) v_arg_i(argc, argv, "--first", 0), count = (uint64_t) v_arg_i(argc, argv, "--count", 10), stride = (uint64_t) v_arg_i(argc, argv, "--stride", 1);
    return v_run_cases(run_case, &c, first, count, stride, &ro) ? 2 : 0;
}
