#define _GNU_SOURCE
#include "iolog.h"
#include "vcommon.h"
#include "jlsdec.h"
#include <stdlib.h>
#include <string.h>
#include <errno.h>
#include <stdarg.h>
#include <fcntl.h>
#include <unistd.h>
#include <sys/types.h>

iolog_t g_io = { .fd = -1 };

int __real_open(const char *path, int flags, ...);
int __real_close(int fd);
ssize_t __real_read(int fd, void *buf, size_t n);
ssize_t __real_write(int fd, const void *buf, size_t n);
off_t __real_lseek(int fd, off_t off, int whence);
int __real_ftruncate(int fd, off_t len);
int __real_fsync(int fd);

static uint32_t rd32(const uint8_t *p) { return (uint32_t) p[0] | ((uint32_t) p[1] << 8) | ((uint32_t) p[2] << 16) | ((uint32_t) p[3] << 24); }
static uint64_t rd64(const uint8_t *p) { return (uint64_t) rd32(p) | ((uint64_t) rd32(p + 4) << 32); }

static size_t disk_len(uint32_t plen) {
    if (!plen) return 0;
    return (((size_t) plen + 4) + 7) & ~(size_t) 7;
}

static io_ev_t *ev_add(uint8_t op, int fd, int64_t off, uint32_t len) {
    if (g_io.n == g_io.cap) {
        g_io.cap = g_io.cap ? g_io.cap * 2 : 1024;
        g_io.ev = realloc(g_io.ev, g_io.cap * sizeof(io_ev_t));
    }
    io_ev_t *e = &g_io.ev[g_io.n];
    e->seq = (uint32_t) g_io.n; e->op = op; e->fd = fd; e->off = off; e->len = len; e->data_pos = 0;
    g_io.n++;
    return e;
}

void iolog_start(const char *target_path, int monitor, int keep_data) {
    iolog_reset();
    snprintf(g_io.target, sizeof(g_io.target), "%s", target_path);
    g_io.monitor = monitor;
    g_io.keep_data = keep_data;
    g_io.enabled = 1;
    g_io.fd = -1;
    g_io.parsed_end = 32;
}

void iolog_stop(void) { g_io.enabled = 0; }

void iolog_reset(void) {
    free(g_io.ev); free(g_io.data); free(g_io.sh); free(g_io.ck);
    void (*cb)(const io_ev_t *) = g_io.on_event;
    void (*bf)(void) = g_io.before_io;
    memset(&g_io, 0, sizeof(g_io));
    g_io.fd = -1;
    g_io.on_event = cb; g_io.before_io = bf;
}

/* A hole [far_h, far_h + far_l) of file offsets as the library sees them that does not exist in the real file: behind it,
 * library offset = real offset + far_l.  The library works with positions beyond 2^32 while the file, the shadow copy and
 * every rule of the monitor stay small.  Survives iolog_start (the reader of the same file needs the same view). */
static int64_t far_h = -1, far_l = 0;
void iolog_far_hole(int64_t at, int64_t len) { far_h = len ? at : -1; far_l = len ? len : 0; }
static int64_t lib2real(int64_t x) { if (far_h < 0 || x < far_h) return x; if (x < far_h + far_l) return far_h; return x - far_l; }
static int64_t real2lib(int64_t r) { return (far_h >= 0 && r >= far_h) ? r + far_l : r; }

static void sh_reserve(size_t n) {
    if (n > g_io.sh_cap) {
        size_t c = g_io.sh_cap ? g_io.sh_cap : 4096;
        while (c < n) c *= 2;
        g_io.sh = realloc(g_io.sh, c);
        g_io.sh_cap = c;
    }
}

static struct io_chunk_s *ck_find(uint64_t pos) {
    size_t lo = 0, hi = g_io.ck_n;
    while (lo < hi) {
        size_t mid = (lo + hi) / 2;
        if (g_io.ck[mid].off <= pos) lo = mid + 1; else hi = mid;
    }
    if (!lo) return NULL;
    return &g_io.ck[lo - 1];
}

static int ck_is_start(uint64_t off) {
    struct io_chunk_s *c = ck_find(off);
    return c && c->off == off;
}

static void parse_forward(void) {
    while (g_io.parsed_end + 32 <= g_io.sh_n) {
        const uint8_t *h = g_io.sh + g_io.parsed_end;
        uint32_t plen = rd32(h + 20);
        if (!g_io.ck_n || g_io.ck[g_io.ck_n - 1].off != g_io.parsed_end) {
            if (g_io.ck_n == g_io.ck_cap) {
                g_io.ck_cap = g_io.ck_cap ? g_io.ck_cap * 2 : 256;
                g_io.ck = realloc(g_io.ck, g_io.ck_cap * sizeof(*g_io.ck));
            }
            g_io.ck[g_io.ck_n].off = g_io.parsed_end;
            g_io.ck[g_io.ck_n].plen = plen;
            g_io.ck[g_io.ck_n].tag = h[16];
            g_io.ck_n++;
            if (g_io.monitor && jd_crc32c(h, 28) != rd32(h + 28)) {
                char key[64]; snprintf(key, sizeof(key), "append-hdr-crc|tag=0x%02x", h[16]);
                v_violation("C14", key, NULL, "appended chunk header at %zu has a wrong CRC", g_io.parsed_end);
            }
        }
        size_t end = g_io.parsed_end + 32 + disk_len(plen);
        if (end > g_io.sh_n) break;
        g_io.parsed_end = end;
    }
}

static const char *tagname(uint8_t tag) {
    static char b[8][24]; static int k;
    char *o = b[k++ & 7];
    if (tag == 1) return "SOURCE_DEF";
    if (tag == 2) return "SIGNAL_DEF";
    if (tag == 0x40) return "USER_DATA";
    if (tag == 0xff) return "END";
    if ((tag & 0xE0) == 0x20) {
        static const char *tt[] = {"FSR", "VSR", "ANNO", "UTC"};
        static const char *ck[] = {"DEF", "HEAD", "DATA", "INDEX", "SUMMARY", "?5", "?6", "?7"};
        snprintf(o, 24, "%s_%s", tt[(tag >> 3) & 3], ck[tag & 7]);
        return o;
    }
    snprintf(o, 24, "0x%02x", tag);
    return o;
}

/* the write-once rules, applied with the previous bytes in hand */
static void monitor_write(int64_t pos, const uint8_t *buf, size_t n) {
    char key[128];
    if ((size_t) pos > g_io.sh_n) {
        v_violation("C14", "hole", NULL, "write at %lld beyond end of file %zu", (long long) pos, g_io.sh_n);
        return;
    }
    size_t ov = 0;
    if ((size_t) pos < g_io.sh_n) { ov = g_io.sh_n - (size_t) pos; if (ov > n) ov = n; }
    if (!ov) { g_io.n_append++; return; }
    if (!memcmp(g_io.sh + pos, buf, ov)) { g_io.n_same++; return; }  /* identical bytes: nothing modified */
    if (pos < 32) {
        if (pos != 0 || n != 32) v_violation("C14", "filehdr-partial", NULL, "file header region written at %lld len %zu", (long long) pos, n);
        g_io.n_inplace_filehdr++;
        g_io.filehdr_writes++;
        g_io.last_filehdr_seq = (uint32_t) g_io.n;
        return;
    }
    struct io_chunk_s *c = ck_find((uint64_t) pos);
    if (!c) { v_violation("C14", "unparsed-region", NULL, "in-place write at %lld outside any known chunk", (long long) pos); return; }
    size_t cend = c->off + 32 + disk_len(c->plen);
    if ((uint64_t) pos + ov > cend) {
        snprintf(key, sizeof(key), "span|%s", tagname(c->tag));
        v_violation("C14", key, NULL, "in-place write at %lld len %zu spans past chunk at %llu", (long long) pos, n, (unsigned long long) c->off);
        return;
    }
    if ((uint64_t) pos < c->off + 32) {
        /* header region */
        if ((uint64_t) pos != c->off || ov != 32) {
            snprintf(key, sizeof(key), "hdr-partial|%s", tagname(c->tag));
            v_violation("C14", key, NULL, "partial header rewrite at %lld len %zu", (long long) pos, n);
            return;
        }
        const uint8_t *old = g_io.sh + pos;
        g_io.n_inplace_hdr++;
        if (memcmp(old + 16, buf + 16, 12)) {
            const char *field = "tag";
            if (old[16] != buf[16]) field = "tag";
            else if (old[17] != buf[17]) field = "rsv";
            else if (memcmp(old + 18, buf + 18, 2)) field = "chunk_meta";
            else if (memcmp(old + 20, buf + 20, 4)) field = "payload_length";
            else field = "payload_prev_length";
            snprintf(key, sizeof(key), "hdr-field|%s|%s", tagname(c->tag), field);
            v_violation("C14", key, NULL, "header rewrite of %s chunk at %llu changes %s (%u -> %u)", tagname(c->tag),
                        (unsigned long long) c->off, field, rd32(old + (strcmp(field, "payload_length") ? 24 : 20)), rd32(buf + (strcmp(field, "payload_length") ? 24 : 20)));
        }
        if (jd_crc32c(buf, 28) != rd32(buf + 28)) {
            snprintf(key, sizeof(key), "hdr-crc|%s", tagname(c->tag));
            v_violation("C14", key, NULL, "header rewrite of chunk at %llu carries a wrong CRC", (unsigned long long) c->off);
        }
        return;
    }
    /* payload / pad / crc region */
    int is_head = ((c->tag & 0xE0) == 0x20) && ((c->tag & 7) == 1);
    if (!is_head) {
        snprintf(key, sizeof(key), "payload-rewrite|%s", tagname(c->tag));
        v_violation("C14", key, NULL, "payload bytes of %s chunk at %llu modified in place (write at %lld len %zu)", tagname(c->tag),
                    (unsigned long long) c->off, (long long) pos, n);
        return;
    }
    g_io.n_inplace_head++;
    uint64_t pbase = c->off + 32;
    uint8_t oldp[128], newp[128];
    if (c->plen != 128) return;
    memcpy(oldp, g_io.sh + pbase, 128);
    memcpy(newp, oldp, 128);
    for (size_t i = 0; i < ov; ++i) {
        uint64_t a = (uint64_t) pos + i;
        if (a >= pbase && a < pbase + 128) newp[a - pbase] = buf[i];
    }
    for (int l = 0; l < 16; ++l) {
        uint64_t o = rd64(oldp + 8 * l), w = rd64(newp + 8 * l);
        if (o == w) continue;
        if (o != 0) {
            snprintf(key, sizeof(key), "head-entry-changed|%s", tagname(c->tag));
            v_violation("C14", key, NULL, "head table of chunk at %llu: entry %d changed from %llu to %llu", (unsigned long long) c->off, l,
                        (unsigned long long) o, (unsigned long long) w);
        } else if (!ck_is_start((uint64_t) lib2real((int64_t) w))) {
            snprintf(key, sizeof(key), "head-entry-target|%s", tagname(c->tag));
            v_violation("C14", key, NULL, "head table of chunk at %llu: entry %d set to %llu which is not an existing chunk", (unsigned long long) c->off, l,
                        (unsigned long long) w);
        }
    }
}

static void track_write(int fd, const void *buf, size_t n) {
    int64_t pos = g_io.pos;
    if (g_io.open_flags & O_APPEND) pos = (int64_t) g_io.sh_n;
    if (g_io.monitor) monitor_write(pos, buf, n);
    io_ev_t *e = ev_add(IO_WRITE, fd, pos, (uint32_t) n);
    if (g_io.keep_data) {
        if (g_io.data_n + n > g_io.data_cap) {
            size_t c = g_io.data_cap ? g_io.data_cap : 65536;
            while (c < g_io.data_n + n) c *= 2;
            g_io.data = realloc(g_io.data, c);
            g_io.data_cap = c;
        }
        memcpy(g_io.data + g_io.data_n, buf, n);
        e->data_pos = g_io.data_n;
        g_io.data_n += n;
    }
    g_io.n_write++; g_io.bytes += n;
    g_io.last_write_seq = e->seq;
    size_t end = (size_t) pos + n;
    sh_reserve(end);
    if ((size_t) pos > g_io.sh_n) memset(g_io.sh + g_io.sh_n, 0, (size_t) pos - g_io.sh_n);
    memcpy(g_io.sh + pos, buf, n);
    if (end > g_io.sh_n) g_io.sh_n = end;
    g_io.pos = (int64_t) end;
    if (g_io.monitor) parse_forward();
    if (g_io.on_event) g_io.on_event(e);
}

int __wrap_open(const char *path, int flags, ...) {
    mode_t mode = 0;
    if (flags & O_CREAT) { va_list ap; va_start(ap, flags); mode = (mode_t) va_arg(ap, int); va_end(ap); }
    int fd = __real_open(path, flags, mode);
    if (g_io.enabled && fd >= 0 && !strcmp(path, g_io.target)) {
        g_io.fd = fd; g_io.pos = 0; g_io.open_flags = flags;
        ev_add(IO_OPEN, fd, flags, 0);
        if ((flags & O_ACCMODE) != O_RDONLY) g_io.n_open_wr++;
        if (flags & O_TRUNC) { g_io.sh_n = 0; g_io.parsed_end = 32; g_io.ck_n = 0; }
        else if (!g_io.sh_n) {
            /* load existing content into the shadow */
            off_t sz = __real_lseek(fd, 0, SEEK_END);
            if (sz > 0) {
                sh_reserve((size_t) sz);
                __real_lseek(fd, 0, SEEK_SET);
                size_t got = 0;
                while (got < (size_t) sz) {
                    ssize_t r = __real_read(fd, g_io.sh + got, (size_t) sz - got);
                    if (r <= 0) break;
                    got += (size_t) r;
                }
                g_io.sh_n = got;
            }
            __real_lseek(fd, 0, SEEK_SET);
        }
    }
    return fd;
}

int __wrap_close(int fd) {
    if (g_io.enabled && fd == g_io.fd && fd >= 0) {
        ev_add(IO_CLOSE, fd, 0, 0);
        if (g_io.monitor && g_io.filehdr_writes) {
            if (g_io.filehdr_writes > 1)
                v_violation("C14", "filehdr-repeated", NULL, "file header rewritten %u times before close", g_io.filehdr_writes);
            else if (g_io.last_filehdr_seq != g_io.last_write_seq)
                v_violation("C14", "filehdr-not-last", NULL, "file header rewritten at event %u but writes continued until %u", g_io.last_filehdr_seq, g_io.last_write_seq);
        }
        g_io.fd = -1;
    }
    return __real_close(fd);
}

ssize_t __wrap_read(int fd, void *buf, size_t n) {
    ssize_t r = __real_read(fd, buf, n);
    if (g_io.enabled && fd == g_io.fd && fd >= 0 && r > 0) g_io.pos += r;
    return r;
}

ssize_t __wrap_write(int fd, const void *buf, size_t n) {
    if (g_io.enabled && fd == g_io.fd && fd >= 0) {
        if (g_io.before_io) g_io.before_io();
        track_write(fd, buf, n);
    }
    return __real_write(fd, buf, n);
}

off_t __wrap_lseek(int fd, off_t off, int whence) {
    int tracked = g_io.enabled && fd == g_io.fd && fd >= 0;
    if (tracked && far_h >= 0 && whence == SEEK_SET) {
        if (off >= far_h && off < far_h + far_l && off != far_h) { errno = EINVAL; return -1; }   /* inside the hole: nothing is there */
        off = (off_t) lib2real(off);
    }
    off_t r = __real_lseek(fd, off, whence);
    if (tracked && r >= 0) { g_io.pos = r; if (far_h >= 0) r = (off_t) real2lib(r); }
    return r;
}

int __wrap_ftruncate(int fd, off_t len) {
    if (g_io.enabled && fd == g_io.fd && fd >= 0) {
        if (far_h >= 0) len = (off_t) lib2real(len);
        io_ev_t *e = ev_add(IO_TRUNC, fd, len, 0);
        g_io.n_trunc++;
        if (g_io.monitor) v_violation("C14", "truncate", NULL, "writer truncated the file to %lld (size %zu)", (long long) len, g_io.sh_n);
        if ((size_t) len < g_io.sh_n) g_io.sh_n = (size_t) len;
        else if ((size_t) len > g_io.sh_n) { sh_reserve((size_t) len); memset(g_io.sh + g_io.sh_n, 0, (size_t) len - g_io.sh_n); g_io.sh_n = (size_t) len; }
        if (g_io.on_event) g_io.on_event(e);
    }
    return __real_ftruncate(fd, len);
}

int __wrap_fsync(int fd) {
    if (g_io.enabled && fd == g_io.fd && fd >= 0) {
        if (g_io.before_io) g_io.before_io();
        io_ev_t *e = ev_add(IO_FSYNC, fd, 0, 0);
        g_io.n_fsync++;
        if (g_io.on_event) g_io.on_event(e);
    }
    return __real_fsync(fd);
}

size_t iolog_mutations(void) {
    size_t m = 0;
    for (size_t i = 0; i < g_io.n; ++i) if (g_io.ev[i].op == IO_WRITE || g_io.ev[i].op == IO_TRUNC) ++m;
    return m;
}

size_t iolog_mutation_index(size_t k) {
    size_t m = 0;
    for (size_t i = 0; i < g_io.n; ++i) {
        if (g_io.ev[i].op == IO_WRITE || g_io.ev[i].op == IO_TRUNC) { if (m == k) return i; ++m; }
    }
    return (size_t) -1;
}

size_t iolog_image(size_t k, size_t partial, uint8_t **out) {
    uint8_t *img = NULL; size_t n = 0, cap = 0, m = 0;
    for (size_t i = 0; i < g_io.n; ++i) {
        io_ev_t *e = &g_io.ev[i];
        if (e->op != IO_WRITE && e->op != IO_TRUNC) continue;
        size_t take;
        if (m < k) take = e->len;
        else if (m == k && partial) take = partial < e->len ? partial : e->len;
        else break;
        if (e->op == IO_TRUNC) {
            if (m < k) { if ((size_t) e->off < n) n = (size_t) e->off; }
        } else {
            size_t end = (size_t) e->off + take;
            if (end > cap) { cap = cap ? cap : 4096; while (cap < end) cap *= 2; img = realloc(img, cap); }
            if ((size_t) e->off > n) memset(img + n, 0, (size_t) e->off - n);
            memcpy(img + e->off, g_io.data + e->data_pos, take);
            if (end > n) n = end;
        }
        ++m;
    }
    if (!img) img = malloc(1);
    *out = img;
    return n;
}
