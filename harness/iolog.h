/*
 * I/O boundary event log (link-time interposition of the POSIX calls made by
 * backend_posix.o) and the online write-once monitor (C14).
 */
#ifndef IOLOG_H_
#define IOLOG_H_
#include <stdint.h>
#include <stddef.h>

enum { IO_OPEN = 1, IO_CLOSE, IO_WRITE, IO_TRUNC, IO_FSYNC, IO_READ };

typedef struct {
    uint32_t seq;
    uint8_t op;
    int fd;
    int64_t off;       /* write: offset; trunc: new length; open: flags */
    uint32_t len;
    size_t data_pos;   /* write: position of the bytes in iolog.data */
} io_ev_t;

typedef struct {
    int enabled;
    int monitor;            /* 1: run the write-once rules online on the target file */
    char target[320];       /* only this path is tracked */
    io_ev_t *ev; size_t n, cap;
    uint8_t *data; size_t data_n, data_cap;
    /* shadow of the target file */
    uint8_t *sh; size_t sh_n, sh_cap;
    int fd; int64_t pos; int open_flags;
    /* counters */
    uint64_t n_write, n_append, n_inplace_hdr, n_inplace_head, n_inplace_filehdr, n_same, n_trunc, n_fsync, n_open_wr, bytes;
    /* monitor state */
    size_t parsed_end;
    struct io_chunk_s { uint64_t off; uint32_t plen; uint8_t tag; } *ck; size_t ck_n, ck_cap;
    uint32_t filehdr_writes; uint32_t last_filehdr_seq; uint32_t last_write_seq;
    int keep_data;          /* keep a copy of every written buffer (needed for crash images) */
    /* stall injection for the threaded writer tests */
    void (*on_event)(const io_ev_t *ev);
    void (*before_io)(void);       /* called before a write/fsync on the target is recorded and issued */
} iolog_t;

extern iolog_t g_io;

void iolog_start(const char *target_path, int monitor, int keep_data);
void iolog_stop(void);     /* stop tracking; keeps the log */
void iolog_reset(void);    /* free everything */
/* violations found by the monitor are reported through v_violation("C14", ...) */
/* rebuild file image after the first k events (writes/truncs), plus 'partial' bytes of the next write */
size_t iolog_image(size_t k_events, size_t partial, uint8_t **out);
/* from now on the library sees a hole of `len` bytes at file offset `at` (normally the current end) that the real file does
 * not have: positions beyond 2^32 without the bytes.  len 0 switches it off. */
void iolog_far_hole(int64_t at, int64_t len);
/* number of write/trunc events */
size_t iolog_mutations(void);
/* index (into ev[]) of the k-th mutation */
size_t iolog_mutation_index(size_t k);

#endif
