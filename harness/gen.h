/* Workload generators shared by the harnesses. */
#ifndef GEN_H_
#define GEN_H_
#include "model.h"

enum { DEF_DEFAULTS = 0, DEF_MINIMAL, DEF_SMALL, DEF_MEDIUM, DEF_BIGBLOCK, DEF_TINYLEVELS, DEF_CLASS_COUNT };
extern const char *DEF_CLASS_NAME[DEF_CLASS_COUNT];

/* a signal definition of the given class (not normalised) */
void gen_def(rng_t *r, struct jls_signal_def_s *d, uint16_t signal_id, uint16_t source_id, const dtype_t *t, int cls);
/* normalised copy (uses the library's own normaliser; steering only, never an oracle) */
void def_normalised(const struct jls_signal_def_s *in, struct jls_signal_def_s *out);
/* samples covered by one level-L summary chunk (L>=1), after normalisation */
int64_t def_level_span(const struct jls_signal_def_s *norm, int level);

enum { PART_ONE = 0, PART_SINGLES, PART_SMALL, PART_BLOCKISH, PART_RANDOM, PART_WHOLEBLOCKS, PART_ODD, PART_COUNT };
extern const char *PART_NAME[PART_COUNT];
/* append FSR ops covering [first, first+n) for signal id, partitioned by class; returns number of ops */
typedef struct { int64_t sid; uint32_t n; } span_t;
size_t gen_partition(rng_t *r, int cls, int64_t first, int64_t n, uint32_t spd, span_t **out);

int64_t gen_first_id(rng_t *r, int *cls);
extern const char *FIRST_NAME[6];

/* pick a stream length that lands on the fragile places of the length bookkeeping */
int64_t gen_length(rng_t *r, const struct jls_signal_def_s *norm, int64_t budget, int *cls);
extern const char *LEN_NAME[8];

/* interleave per-signal op lists into the program, preserving per-signal order */
void prog_interleave(prog_t *p, rng_t *r, op_t **lists, size_t *counts, size_t nlists);

#endif
