#define _GNU_SOURCE
#include "model.h"
#include "jlsdec.h"
#include "jls/reader.h"
#include "jls/ec.h"
#include "jls/time.h"
#include <stdlib.h>
#include <string.h>
#include <math.h>
#include <float.h>

#define FAR_PAST (-(1LL << 60))
static const uint8_t CANARY[8] = {0xC5, 0x5C, 0xA7, 0x7A, 0x3E, 0xE3, 0x91, 0x19};

static const char *fk(const verify_opts_t *o) { return o->file_kind ? o->file_kind : "sync"; }
static int is_omit(const verify_opts_t *o) { return !strncmp(fk(o), "omitted-blocks", 14); }

/* =====================================================================================
 * FSR samples
 * ===================================================================================== */
typedef struct { int sig; int64_t start, len; } win_t;

static size_t rd_buf_bytes(const dtype_t *t, int64_t len) {
    if (t->bits >= 8) return (size_t) (len * (t->bits / 8));
    return (size_t) (1 + (len * t->bits) / 8);
}

/* returns 1 on violation */
static int check_window(struct jls_rd_s *rd, const model_t *m, const win_t *w, const verify_opts_t *o,
                        const jd_t *dec, const jd_signal_t *ds, int64_t spd, int pass) {
    const msig_t *s = &m->sig[w->sig];
    const dtype_t *t = s->dt;
    size_t nb = rd_buf_bytes(t, w->len);
    uint8_t *buf = malloc(nb + 8);   /* documented size + canary */
    memset(buf, 0xEE, nb);
    memcpy(buf + nb, CANARY, 8);
    int32_t rc;
    if (t->code == JLS_DATATYPE_F32 && ((w->start ^ w->len) & 1)) { v_api("jls_rd_fsr_f32"); rc = jls_rd_fsr_f32(rd, (uint16_t) w->sig, w->start, (float *) buf, w->len); }
    else { v_api("jls_rd_fsr"); rc = jls_rd_fsr(rd, (uint16_t) w->sig, w->start, buf, w->len); }
    v_api("");
    char key[200], wj[300];
    snprintf(wj, sizeof(wj), "{\"signal\":%d,\"type\":\"%s\",\"start\":%lld,\"len\":%lld,\"spd\":%lld,\"length\":%lld,\"pass\":%d}",
             w->sig, t->name, (long long) w->start, (long long) w->len, (long long) spd, (long long) msig_length(s), pass);
    int bad = 0;
    if (memcmp(buf + nb, CANARY, 8)) {
        snprintf(key, sizeof(key), "overrun|bits=%d|%s", t->bits, fk(o));
        v_violation(o->prop_data, key, wj, "jls_rd_fsr wrote past the documented buffer size (%zu bytes)", nb);
        bad = 1;
    }
    int unaligned = ((w->start * t->bits) & 7) != 0;
    int cross = spd > 0 && (w->start / spd) != ((w->start + w->len - 1) / spd);
    if (rc && o->errors_ok) { v_count(o->prop_data, "reads_returned_error", 1); free(buf); return bad; }
    if (rc) {
        int crashkind = strstr(fk(o), "writes") || strstr(fk(o), "torn") || strstr(fk(o), "omitted-blocks");
        if (crashkind && (is_omit(o) || !strcmp(fk(o), "torn-header-update"))) snprintf(key, sizeof(key), "read-error|%s", fk(o));
        else if (crashkind) snprintf(key, sizeof(key), "read-error|rc=%d|%s", rc, fk(o));
        else snprintf(key, sizeof(key), "read-error|rc=%d|bits=%d|unaligned=%d|cross=%d|%s", rc, t->bits, unaligned, cross, fk(o));
        v_violation(o->prop_data, key, wj, "jls_rd_fsr returned %d for an in-range window", rc);
        free(buf);
        return 1;
    }
    int64_t fd = 0;
    if (!bits_equal(buf, 0, s->data, w->start * t->bits, w->len * t->bits, &fd)) {
        /* per-sample: gap semantics and omitted-on-request exemption */
        for (int64_t i = fd / t->bits; i < w->len; ++i) {
            int64_t k = w->start + i;
            if (bits_equal(buf, i * t->bits, s->data, k * t->bits, t->bits, NULL)) continue;
            int gap = (s->gap[k >> 3] >> (k & 7)) & 1;
            if (gap && t->kind == 2) {
                long double v = sample_value(buf, i, t);
                if (isnan((double) v)) continue;
            }
            int stored = ds ? jd_fsr_block_stored(dec, ds, s->first + k) : -2;
            if (!o->exact_omitted && s->omit_ever && t->bits > 8 && stored == 0) continue;
            if (!o->exact_omitted && s->omit_ever && t->bits > 8 && stored == -2) continue;  /* no decoder view: cannot tell */
            int at_block_start = spd > 0 && (k % spd) == 0;
            if (is_omit(o)) snprintf(key, sizeof(key), "data|%s", fk(o));
            else if (strstr(fk(o), "writes") || strstr(fk(o), "torn")) snprintf(key, sizeof(key), "data|%s|%s", stored == 0 ? "block-omitted" : "block-stored", fk(o));
            else snprintf(key, sizeof(key), "data|bits=%d|kind=%d|unaligned=%d|cross=%d|%s%s%s|%s", t->bits, t->kind, unaligned, cross,
                     stored == 0 ? "block-omitted" : "block-stored", gap ? "|gap" : "", (at_block_start && i > 0) ? "|first-diff-at-block-start" : "", fk(o));
            long double ev = sample_value(s->data, k, t), gv = sample_value(buf, i, t);
            v_violation(o->prop_data, key, wj, "sample %lld (window offset %lld) reads %.12Lg, written %.12Lg", (long long) k, (long long) i, gv, ev);
            bad = 1;
            break;
        }
    }
    free(buf);
    return bad;
}

static void add_win(win_t **arr, size_t *n, size_t *cap, int sig, int64_t start, int64_t len, int64_t total) {
    if (start < 0) start = 0;
    if (len < 1) len = 1;
    if (start >= total) return;
    if (start + len > total) len = total - start;
    if (*n == *cap) { *cap = *cap ? *cap * 2 : 64; *arr = realloc(*arr, *cap * sizeof(win_t)); }
    (*arr)[*n].sig = sig; (*arr)[*n].start = start; (*arr)[*n].len = len;
    (*n)++;
}

static void gen_windows(win_t **arr, size_t *n, size_t *cap, int sig, int64_t total, int64_t spd, int nrand, rng_t *r, int bits) {
    if (total <= 0) return;
    int64_t maxlen = 3 * spd + 17;
    if (maxlen > total) maxlen = total;
    if (total <= (1 << 21)) add_win(arr, n, cap, sig, 0, total, total);
    for (int i = 0; i < 6 && i < total; ++i) add_win(arr, n, cap, sig, i, rng_range(r, 1, maxlen), total);
    for (int i = 1; i <= 6 && i <= total; ++i) {
        add_win(arr, n, cap, sig, total - i, i, total);                       /* ends at last sample */
        add_win(arr, n, cap, sig, total - i - rng_range(r, 0, maxlen), total, total);
    }
    /* block boundaries */
    int64_t nblk = spd > 0 ? (total + spd - 1) / spd : 0;
    for (int k = 0; k < 6 && nblk > 1; ++k) {
        int64_t b = rng_range(r, 1, nblk - 1) * spd;
        static const int d[] = {0, 1, 7, 8, 9, -1, -7, -8, -9, 3, -3};
        int64_t st = b + d[rng_below(r, 11)];
        add_win(arr, n, cap, sig, st, rng_range(r, 1, 40), total);
        add_win(arr, n, cap, sig, b - rng_range(r, 1, 20), rng_range(r, 21, 60), total);    /* crosses */
        add_win(arr, n, cap, sig, b - rng_range(r, 1, spd), spd + rng_range(r, 1, spd), total);
    }
    for (int k = 0; k < nrand; ++k) {
        int64_t st = rng_range(r, 0, total - 1);
        int64_t ln = rng_chance(r, 1, 3) ? rng_range(r, 1, 16) : rng_range(r, 1, maxlen);
        add_win(arr, n, cap, sig, st, ln, total);
    }
    if (bits < 8) {
        for (int k = 0; k < 8; ++k) {   /* sub-byte unaligned start, ending at last sample */
            int64_t st = total - rng_range(r, 1, total < 200 ? total : 200);
            add_win(arr, n, cap, sig, st, total - st, total);
        }
    }
}

int verify_fsr_signal(struct jls_rd_s *rd, const model_t *m, int sig, const verify_opts_t *o, const void *decoder, int64_t len_override) {
    (void) rd; (void) m; (void) sig; (void) o; (void) decoder; (void) len_override;
    return 0;
}

static int verify_all_fsr(struct jls_rd_s *rd, const model_t *m, const verify_opts_t *o, const jd_t *dec) {
    int bad = 0;
    win_t *wins = NULL; size_t nw = 0, cap = 0;
    int64_t spds[256] = {0};
    char key[200], wj[256];
    for (int sig = 1; sig < 256; ++sig) {
        const msig_t *s = &m->sig[sig];
        if (!s->defined || !s->fsr) continue;
        int64_t exp = msig_length(s), got = -1;
        v_api("jls_rd_fsr_length");
        int32_t rc = jls_rd_fsr_length(rd, (uint16_t) sig, &got);
        v_api("");
        const jd_signal_t *ds = (dec && dec->sig[sig].present) ? &dec->sig[sig] : NULL;
        struct jls_signal_def_s def;
        memset(&def, 0, sizeof(def));
        jls_rd_signal(rd, (uint16_t) sig, &def);
        int64_t spd = def.samples_per_data;
        spds[sig] = spd;
        snprintf(wj, sizeof(wj), "{\"signal\":%d,\"type\":\"%s\",\"expected\":%lld,\"got\":%lld,\"spd\":%lld,\"sdf\":%u,\"eps\":%u,\"sumdf\":%u,\"first\":%lld}",
                 sig, s->dt->name, (long long) exp, (long long) got, (long long) spd, def.sample_decimate_factor, def.entries_per_summary, def.summary_decimate_factor, (long long) s->first);
        if (rc) {
            snprintf(key, sizeof(key), "length-error|rc=%d|%s", rc, fk(o));
            v_violation(o->prop_len, key, wj, "jls_rd_fsr_length returned %d", rc);
            bad++;
            continue;
        }
        v_count(o->prop_len, "lengths_checked", 1);
        if (got != exp) {
            const char *cls = "other";
            if (ds && exp > 0) {
                int tail_stored = jd_fsr_block_stored(dec, ds, s->first + exp - 1);
                int64_t disk_len = ds->fsr_have ? ds->fsr_end - ds->fsr_first : 0;
                int partial = spd > 0 && (exp % spd) != 0;
                if (got < exp && tail_stored == 1 && disk_len == exp) cls = "all-samples-on-disk";
                else if (got < exp && tail_stored == 0 && partial) cls = "tail-omitted-partial";
                else if (got < exp && tail_stored == 0) cls = "tail-omitted";
                else if (got < exp) cls = "missing-on-disk";
            }
            if (o->tolerate_omitted_tail && !strcmp(cls, "tail-omitted-partial") && s->omit_ever && s->dt->bits > 8) v_count(o->prop_len, "lengths_rounded_down_by_requested_omission_of_tail", 1);
            else {
                snprintf(key, sizeof(key), "length|%s|%s|bits%s8|%s", got < exp ? "short" : "long", cls, s->dt->bits <= 8 ? "<=" : ">", fk(o));
                v_violation(o->prop_len, key, wj, "signal %d length %lld, submitted span %lld", sig, (long long) got, (long long) exp);
                bad++;
            }
        }
        int64_t lim = got < exp ? got : exp;
        gen_windows(&wins, &nw, &cap, sig, lim, spd, o->windows, o->rng, s->dt->bits);
    }
    /* pass 1: in generation order (per signal); pass 2: a shuffled subset interleaved across signals */
    size_t fails = 0;
    for (size_t i = 0; i < nw && fails < 4; ++i) {
        const jd_signal_t *ds = (dec && dec->sig[wins[i].sig].present) ? &dec->sig[wins[i].sig] : NULL;
        fails += (size_t) check_window(rd, m, &wins[i], o, dec, ds, spds[wins[i].sig], 1);
    }
    v_count(o->prop_data, "windows_compared", (int64_t) nw);
    if (nw > 1 && fails == 0) {
        size_t n2 = nw < 60 ? nw : 60;
        for (size_t i = 0; i < n2; ++i) {
            size_t j = (size_t) rng_below(o->rng, nw);
            if (wins[j].len > 100000) continue;
            const jd_signal_t *ds = (dec && dec->sig[wins[j].sig].present) ? &dec->sig[wins[j].sig] : NULL;
            if (check_window(rd, m, &wins[j], o, dec, ds, spds[wins[j].sig], 2)) { ++fails; break; }
        }
        v_count(o->prop_data, "windows_compared", (int64_t) n2);
    }
    free(wins);
    return bad + (int) fails;
}

/* =====================================================================================
 * statistics (C02 oracle)
 * ===================================================================================== */
typedef struct { long double mean, sd, mn, mx, amax; int finite; int gap; int64_t n; } wstat_t;

static void window_stats(const msig_t *s, int64_t a, int64_t b, wstat_t *w) {
    memset(w, 0, sizeof(*w));
    w->finite = 1;
    w->n = b - a;
    long double sum = 0;
    for (int64_t k = a; k < b; ++k) {
        if ((s->gap[k >> 3] >> (k & 7)) & 1) w->gap = 1;
        long double v = sample_value(s->data, k, s->dt);
        if (!isfinite((double) v)) { w->finite = 0; continue; }
        if (k == a || v < w->mn) w->mn = v;
        if (k == a || v > w->mx) w->mx = v;
        if (fabsl(v) > w->amax) w->amax = fabsl(v);
        sum += v;
    }
    if (!w->finite || w->n <= 0) return;
    w->mean = sum / w->n;
    long double ss = 0;
    for (int64_t k = a; k < b; ++k) { long double v = sample_value(s->data, k, s->dt) - w->mean; ss += v * v; }
    w->sd = w->n > 1 ? sqrtl(ss / (w->n - 1)) : 0;
}

static int summary_is_f32(const dtype_t *t) { return jd_fsr_summary_bits(t->code) == 32; }

#define PS(o) ((o)->prop_stats ? (o)->prop_stats : "C02")
static int check_stats_request(struct jls_rd_s *rd, const model_t *m, int sig, const verify_opts_t *o,
                               int64_t start, int64_t incr, int64_t count, const struct jls_signal_def_s *def, int level) {
    const msig_t *s = &m->sig[sig];
    const dtype_t *t = s->dt;
    wstat_t all;
    window_stats(s, start, start + incr * count, &all);
    if (!all.finite || all.gap) { v_count(PS(o), "requests_skipped_nonfinite_or_gap", 1); return 0; }
    double *out = malloc((size_t) count * 4 * sizeof(double) + 8);
    memcpy((uint8_t *) out + (size_t) count * 32, CANARY, 8);
    v_api("jls_rd_fsr_statistics");
    int32_t rc = jls_rd_fsr_statistics(rd, (uint16_t) sig, start, incr, out, count);
    v_api("");
    char key[200], wj[320];
    snprintf(wj, sizeof(wj), "{\"signal\":%d,\"type\":\"%s\",\"start\":%lld,\"incr\":%lld,\"count\":%lld,\"level\":%d,\"sdf\":%u,\"sumdf\":%u,\"spd\":%u,\"eps\":%u,\"length\":%lld}",
             sig, t->name, (long long) start, (long long) incr, (long long) count, level, def->sample_decimate_factor, def->summary_decimate_factor,
             def->samples_per_data, def->entries_per_summary, (long long) msig_length(s));
    int bad = 0;
    if (memcmp((uint8_t *) out + (size_t) count * 32, CANARY, 8)) {
        v_violation(PS(o), "overrun", wj, "jls_rd_fsr_statistics wrote past data_length entries");
        bad = 1;
    }
    if (rc && o->errors_ok) { v_count(PS(o), "statistics_returned_error", 1); free(out); return bad; }
    if (rc) {
        if (t->bits == 64 && rc == JLS_ERROR_UNSUPPORTED_FILE) { v_count(PS(o), "requests_unsupported_64bit", 1); free(out); return bad; }
        if (is_omit(o) || !strcmp(fk(o), "torn-header-update")) snprintf(key, sizeof(key), "error-return|%s", fk(o));
        else snprintf(key, sizeof(key), "error-return|rc=%d|level=%d|count%s1|%s", rc, level, count > 1 ? ">" : "=", fk(o));
        v_violation(PS(o), key, wj, "in-range statistics request returned %d", rc);
        free(out);
        return 1;
    }
    v_count(PS(o), level == 0 ? "requests_level0" : level == 1 ? "requests_level1" : level == 2 ? "requests_level2" : level == 3 ? "requests_level3" : "requests_level4plus", 1);
    int f32s = summary_is_f32(t);
    long double eps_s = f32s ? ldexpl(1.0L, -24) : ldexpl(1.0L, -52);
    long double d = def->sample_decimate_factor;
    if (count == 1) {
        long double amax = all.amax > 0 ? all.amax : 1;
        double emin = f32s ? (double) (float) all.mn : (double) all.mn;
        double emax = f32s ? (double) (float) all.mx : (double) all.mx;
        if (level == 0) { emin = (double) all.mn; emax = (double) all.mx; }
        if (out[JLS_SUMMARY_FSR_MIN] != emin || out[JLS_SUMMARY_FSR_MAX] != emax) {
            if (is_omit(o)) snprintf(key, sizeof(key), "stats-value|%s", fk(o)); else
            snprintf(key, sizeof(key), "single|minmax|level=%d|%s", level, fk(o));
            v_violation(PS(o), key, wj, "min/max %.10g/%.10g, written samples give %.10g/%.10g", out[JLS_SUMMARY_FSR_MIN], out[JLS_SUMMARY_FSR_MAX], emin, emax);
            bad = 1;
        }
        long double tol = (16 * eps_s + (long double) incr * ldexpl(1.0L, -52)) * amax;
        if (!(fabsl((long double) out[JLS_SUMMARY_FSR_MEAN] - all.mean) <= tol)) {
            if (is_omit(o)) snprintf(key, sizeof(key), "stats-value|%s", fk(o)); else
            snprintf(key, sizeof(key), "single|mean|level=%d|%s", level, fk(o));
            v_violation(PS(o), key, wj, "mean %.12g, exact %.12Lg (tolerance %.3Lg)", out[JLS_SUMMARY_FSR_MEAN], all.mean, tol);
            bad = 1;
        }
        long double absn = ((f32s ? ldexpl(1.0L, -20) : ldexpl(1.0L, -45)) + (long double) incr * ldexpl(1.0L, -50)) * amax;
        long double lo = all.sd * sqrtl((d - 1) / d) * (1 - 1e-5L) - absn;
        long double hi = all.sd * (1 + 1e-5L) + absn;
        if (incr == 1) { lo = 0; hi = absn; }
        long double g = out[JLS_SUMMARY_FSR_STD];
        if (!(g >= lo && g <= hi)) {
            if (is_omit(o)) snprintf(key, sizeof(key), "stats-value|%s", fk(o)); else
            snprintf(key, sizeof(key), "single|std|level=%d|%s", level, fk(o));
            v_violation(PS(o), key, wj, "std %.12Lg outside [%.12Lg, %.12Lg] (sample std %.12Lg)", g, lo, hi, all.sd);
            bad = 1;
        }
    } else {
        long double amax = all.amax > 0 ? all.amax : 1;
        long double tol = (16 * eps_s + (long double) incr * ldexpl(1.0L, -52)) * amax;
        long double msum = 0;
        for (int64_t j = 0; j < count && !bad; ++j) {
            int64_t a = start + (j - 1) * incr, b = start + (j + 2) * incr;
            if (a < start) a = start;
            if (b > start + incr * count) b = start + incr * count;
            wstat_t w;
            window_stats(s, a, b, &w);
            double *e = out + 4 * j;
            msum += e[JLS_SUMMARY_FSR_MEAN];
            static const int idx[3] = {JLS_SUMMARY_FSR_MEAN, JLS_SUMMARY_FSR_MIN, JLS_SUMMARY_FSR_MAX};
            static const char *nm[3] = {"mean", "min", "max"};
            for (int q = 0; q < 3; ++q) {
                long double v = e[idx[q]];
                if (!(v >= w.mn - tol && v <= w.mx + tol)) {
                    if (is_omit(o)) snprintf(key, sizeof(key), "stats-value|%s", fk(o)); else
                    snprintf(key, sizeof(key), "multi|%s-outside|level=%d|%s", nm[q], level, fk(o));
                    v_violation(PS(o), key, wj, "entry %lld %s %.12Lg outside [%.12Lg, %.12Lg] of its window widened by one increment", (long long) j, nm[q], v, w.mn, w.mx);
                    bad = 1;
                    break;
                }
            }
        }
        if (!bad) {
            long double avg = msum / count;
            long double tol2 = tol * 4;
            if (!(fabsl(avg - all.mean) <= tol2)) {
                if (is_omit(o)) snprintf(key, sizeof(key), "stats-value|%s", fk(o)); else
                snprintf(key, sizeof(key), "multi|mean-of-means|level=%d|%s", level, fk(o));
                v_violation(PS(o), key, wj, "average of entry means %.12Lg, exact mean of range %.12Lg (tolerance %.3Lg)", avg, all.mean, tol2);
                bad = 1;
            }
        }
    }
    free(out);
    return bad;
}

int verify_stats_signal(struct jls_rd_s *rd, const model_t *m, int sig, const verify_opts_t *o, int64_t length) {
    const msig_t *s = &m->sig[sig];
    const dtype_t *t = s->dt;
    struct jls_signal_def_s def;
    if (jls_rd_signal(rd, (uint16_t) sig, &def)) return 0;
    rng_t *r = o->rng;
    int bad = 0;
    int64_t sdf = def.sample_decimate_factor, sumdf = def.summary_decimate_factor, spd = def.samples_per_data;
    int64_t sumchunk = (int64_t) def.entries_per_summary * sdf;
    if (sdf <= 0 || sumdf <= 0 || length <= 0) return 0;
    int nreq = 0;
    for (int level = 0; level <= o->max_level && bad < 3; ++level) {
        int64_t step = 1;
        if (level >= 1) { step = sdf; for (int k = 2; k <= level; ++k) step *= sumdf; }
        int64_t next_step = level == 0 ? sdf : step * sumdf;
        if (level > 0 && step * 25 > length) break;
        int per_level = o->stats_requests / (o->max_level + 1) + 1;
        for (int q = 0; q < per_level && bad < 3; ++q) {
            int64_t incr, count;
            int single = rng_chance(r, 1, 2);
            if (level == 0) {
                /* served from samples: increment < sdf, or duration < 25*sdf */
                if (single) { incr = rng_chance(r, 1, 2) ? rng_range(r, 1, sdf * 25 - 1) : rng_range(r, 1, 40); count = 1; }
                else { incr = rng_range(r, 1, sdf - 1 > 0 ? sdf - 1 : 1); static const int c[] = {2, 3, 25, 26, 100}; count = RNG_PICK(r, c); }
            } else if (single) {
                static const int mult[] = {25, 26, 30, 49, 60};
                incr = step * RNG_PICK(r, mult) + (rng_chance(r, 1, 2) ? rng_range(r, 0, step) : 0);
                if (incr >= 25 * next_step) incr = 25 * next_step - 1;
                count = 1;
            } else {
                static const int c[] = {25, 26, 40, 100, 2, 7};
                count = RNG_PICK(r, c);
                switch (rng_below(r, 4)) { case 0: incr = step; break; case 1: incr = step + 1; break; case 2: incr = 2 * step - 1; break; default: incr = 3 * step; break; }
                if (incr >= next_step) incr = next_step - 1;
                if (incr < step) incr = step;
                if (incr * count < 25 * step) count = (25 * step + incr - 1) / incr;
            }
            if (incr < 1) incr = 1;
            if (incr * count > length) {
                if (count > 1) { count = length / incr; if (count < 1) continue; }
                else { incr = length; }
            }
            /* actual level by the documented selection rule */
            int lv = 0; int64_t mult = sdf;
            while (incr >= mult && incr * count >= 25 * mult) { ++lv; mult *= sumdf; }
            int64_t span = incr * count, start;
            switch (rng_below(r, 7)) {
                case 0: start = 0; break;
                case 1: start = length - span; break;
                case 2: start = (rng_range(r, 0, length - span) / step) * step; break;
                case 3: start = (rng_range(r, 0, length - span) / (spd ? spd : 1)) * spd + rng_range(r, -1, 1); break;
                case 4: start = (rng_range(r, 0, length - span) / (sumchunk ? sumchunk : 1)) * sumchunk + rng_range(r, -1, 1); break;
                default: start = rng_range(r, 0, length - span); break;
            }
            if (start < 0) start = 0;
            if (start + span > length) start = length - span;
            struct jls_rd_s *use = rd, *fresh = NULL;
            if (o->fresh_path && rng_chance(r, 1, o->fresh_den > 0 ? o->fresh_den : 8)) {
                v_api("jls_rd_open");
                if (!jls_rd_open(&fresh, o->fresh_path)) { use = fresh; v_count(PS(o), "fresh_reader_requests", 1); }
                v_api("");
            }
            bad += check_stats_request(use, m, sig, o, start, incr, count, &def, lv);
            if (fresh) { v_api("jls_rd_close"); jls_rd_close(fresh); v_api(""); }
            ++nreq;
        }
    }
    v_count(PS(o), "requests", nreq);
    return bad;
}

/* =====================================================================================
 * annotations (C11)
 * ===================================================================================== */
typedef struct { int64_t ts; uint8_t atype, stype, group; float y; uint32_t size; uint64_t h; } anno_rec_t;
typedef struct { anno_rec_t *a; size_t n, cap; size_t stop_after; size_t calls; int corrupt; int32_t stop_value; } anno_coll_t;

static int32_t anno_cbk(void *ud, const struct jls_annotation_s *a) {
    anno_coll_t *c = ud;
    c->calls++;
    if (c->n == c->cap) { c->cap = c->cap ? c->cap * 2 : 64; c->a = realloc(c->a, c->cap * sizeof(anno_rec_t)); }
    anno_rec_t *r = &c->a[c->n++];
    r->ts = a->timestamp; r->atype = a->annotation_type; r->stype = a->storage_type; r->group = a->group_id; r->y = a->y;
    r->size = a->data_size;
    r->h = fnv1a(a->data, a->data_size, FNV_INIT);
    if (a->rsv64_1 || a->rsv8_1) c->corrupt = 1;
    if (c->stop_after && c->n >= c->stop_after) return c->stop_value ? c->stop_value : 1;   /* any non-zero value asks to stop */
    return 0;
}

static void model_anno(const model_t *m, int sig, size_t i, anno_rec_t *r) {
    const msig_t *s = &m->sig[sig];
    const op_t *o = &m->p->ops[s->anno[i]];
    int64_t off = (s->fsr && s->have) ? s->first : 0;
    r->ts = o->ts - off; r->atype = o->atype; r->stype = o->stype; r->group = o->group; r->y = o->y; r->size = o->dsize;
    uint8_t *b = gen_payload(o->stype, o->dsize, o->dseed);
    r->h = fnv1a(b, o->dsize, FNV_INIT);
    free(b);
}

static int anno_eq(const anno_rec_t *a, const anno_rec_t *b) {
    return a->ts == b->ts && a->atype == b->atype && a->stype == b->stype && a->group == b->group &&
           !memcmp(&a->y, &b->y, 4) && a->size == b->size && a->h == b->h;
}

int verify_annotations(struct jls_rd_s *rd, const model_t *m, int sig, const verify_opts_t *o) {
    const msig_t *s = &m->sig[sig];
    if (!s->defined) return 0;
    size_t n = s->nanno;
    anno_rec_t *exp = malloc((n + 1) * sizeof(anno_rec_t));
    for (size_t i = 0; i < n; ++i) model_anno(m, sig, i, &exp[i]);
    char key[200], wj[256];
    int bad = 0;
    uint32_t adf = 0;
    { struct jls_signal_def_s d; if (!jls_rd_signal(rd, (uint16_t) sig, &d)) adf = d.annotation_decimate_factor; }
    anno_coll_t c; memset(&c, 0, sizeof(c));
    v_api("jls_rd_annotations");
    int32_t rc = jls_rd_annotations(rd, (uint16_t) sig, FAR_PAST, anno_cbk, &c);
    v_api("");
    snprintf(wj, sizeof(wj), "{\"signal\":%d,\"count\":%zu,\"adf\":%u,\"returned\":%zu,\"fsr\":%d}", sig, n, adf, c.n, s->fsr);
    if (rc) {
        snprintf(key, sizeof(key), "full|error|rc=%d|%s", rc, fk(o));
        v_violation("C11", key, wj, "jls_rd_annotations returned %d", rc); bad = 1;
    } else if (c.n != n) {
        snprintf(key, sizeof(key), "full|count|%s|%s", c.n < n ? "fewer" : "more", fk(o));
        v_violation("C11", key, wj, "full iteration delivered %zu annotations, %zu were written", c.n, n); bad = 1;
    } else {
        for (size_t i = 0; i < n; ++i) if (!anno_eq(&c.a[i], &exp[i])) {
            const char *what = c.a[i].ts != exp[i].ts ? "timestamp" : c.a[i].h != exp[i].h || c.a[i].size != exp[i].size ? "payload" : "fields";
            snprintf(key, sizeof(key), "full|mismatch|%s|%s", what, fk(o));
            v_violation("C11", key, wj, "annotation %zu differs in %s (ts %lld vs %lld, size %u vs %u)", i, what, (long long) c.a[i].ts, (long long) exp[i].ts, c.a[i].size, exp[i].size);
            bad = 1; break;
        }
    }
    v_count("C11", "annotations_compared", (int64_t) n);
    free(c.a);
    if (bad || !n) { free(exp); return bad; }
    /* seeks */
    rng_t *r = o->rng;
    int nseek = n < 40 ? (int) (3 * n + 4) : 120;
    for (int q = 0; q < nseek && !bad; ++q) {
        int64_t t;
        size_t pick = (size_t) rng_below(r, n);
        switch (q < 4 ? q : 4 + (int) rng_below(r, 3)) {
            case 0: t = exp[0].ts - 1; break;
            case 1: t = exp[n - 1].ts + 1; break;
            case 2: t = exp[0].ts; break;
            case 3: t = exp[n - 1].ts; break;
            case 4: t = exp[pick].ts; break;
            case 5: t = exp[pick].ts - 1; break;
            default: t = exp[pick].ts + 1; break;
        }
        /* the ends of the timestamp range: far before the first and far after the last annotation */
        if (q >= 4 && rng_chance(r, 1, 10)) { static const int64_t ends[] = {INT64_MAX, INT64_MAX - 1, INT64_MIN, INT64_MIN + 1, INT64_MAX - 1000, INT64_MIN + 1000}; t = ends[rng_below(r, 6)]; }
        anno_coll_t k; memset(&k, 0, sizeof(k));
        size_t stop = rng_chance(r, 1, 4) ? (size_t) rng_range(r, 1, 3) : 0;
        k.stop_after = stop;
        { static const int32_t sv[] = {1, 2, -1, INT32_MAX, INT32_MIN, -2, 7}; k.stop_value = sv[rng_below(r, 7)]; }
        v_api("jls_rd_annotations");
        rc = jls_rd_annotations(rd, (uint16_t) sig, t, anno_cbk, &k);
        v_api("");
        /* expected: first index with ts >= t */
        size_t first_ge = n;
        for (size_t i = 0; i < n; ++i) if (exp[i].ts >= t) { first_ge = i; break; }
        snprintf(wj, sizeof(wj), "{\"signal\":%d,\"count\":%zu,\"adf\":%u,\"t\":%lld,\"first_ge\":%zu,\"delivered\":%zu,\"stop_after\":%zu,\"fsr\":%d}",
                 sig, n, adf, (long long) t, first_ge, k.n, stop, s->fsr);
        if (rc) {
            snprintf(key, sizeof(key), "seek|error|rc=%d|%s", rc, fk(o));
            v_violation("C11", key, wj, "jls_rd_annotations(t) returned %d", rc); bad = 1;
        } else if (stop) {
            if (k.calls > stop) { snprintf(key, sizeof(key), "seek|stop-ignored|%s", fk(o)); v_violation("C11", key, wj, "callback asked to stop after %zu but was called %zu times", stop, k.calls); bad = 1; }
        } else {
            /* contiguous tail: delivered = exp[start..n) */
            size_t start = n - k.n;
            int eq_run = exp[first_ge < n ? first_ge : n - 1].ts == t;
            if (k.n > n) { snprintf(key, sizeof(key), "seek|too-many|%s", fk(o)); v_violation("C11", key, wj, "more annotations delivered than written"); bad = 1; }
            else {
                int tail_ok = 1;
                for (size_t i = 0; i < k.n; ++i) if (!anno_eq(&k.a[i], &exp[start + i])) { tail_ok = 0; break; }
                if (!tail_ok) { snprintf(key, sizeof(key), "seek|not-a-tail|%s", fk(o)); v_violation("C11", key, wj, "iteration from t is not a contiguous tail of the written sequence"); bad = 1; }
                else if (start > first_ge) {
                    snprintf(key, sizeof(key), "seek|missed|%s|%s", eq_run ? "equal-timestamps" : "later", fk(o));
                    v_violation("C11", key, wj, "iteration from t=%lld starts at index %zu but index %zu has timestamp >= t", (long long) t, start, first_ge); bad = 1;
                } else if (first_ge - start > 1) {
                    snprintf(key, sizeof(key), "seek|too-early|%s", fk(o));
                    v_violation("C11", key, wj, "iteration from t=%lld delivered %zu annotations earlier than t", (long long) t, first_ge - start); bad = 1;
                }
            }
        }
        v_count("C11", "seeks", 1);
        free(k.a);
    }
    free(exp);
    return bad;
}

/* =====================================================================================
 * UTC (C12)
 * ===================================================================================== */
typedef struct { struct jls_utc_summary_entry_s *e; size_t n, cap; } utc_coll_t;
static int32_t utc_cbk(void *ud, const struct jls_utc_summary_entry_s *u, uint32_t size) {
    utc_coll_t *c = ud;
    for (uint32_t i = 0; i < size; ++i) {
        if (c->n == c->cap) { c->cap = c->cap ? c->cap * 2 : 64; c->e = realloc(c->e, c->cap * sizeof(*c->e)); }
        c->e[c->n++] = u[i];
    }
    return 0;
}

static __int128 div_round(__int128 a, __int128 b) {
    if (b < 0) { a = -a; b = -b; }
    if (a >= 0) return (a + b / 2) / b;
    return -((-a + b / 2) / b);
}

/* the exact time of a sample id under the piecewise-linear map through the anchors (x ids, y times): interpolation inside,
 * extrapolation from the nearest segment outside, the sample rate when there is one anchor only */
static __int128 utc_exact(size_t n, const int64_t *x, const int64_t *y, uint32_t rate, int64_t sid, long double *kterm, int *anchor_hit) {
    __int128 exact;
    *anchor_hit = 0;
    if (n == 1) {
        __int128 num = (__int128) (sid - x[0]) * JLS_TIME_SECOND;
        exact = y[0] + div_round(num, rate);
        *kterm = fabsl((long double) (sid - x[0]) * JLS_TIME_SECOND / rate);
        *anchor_hit = sid == x[0];
    } else {
        size_t lo = 0;
        if (sid <= x[0]) lo = 0; else if (sid >= x[n - 1]) lo = n - 2; else { for (size_t i = 0; i + 1 < n; ++i) if (sid >= x[i] && sid <= x[i + 1]) { lo = i; break; } }
        __int128 num = (__int128) (sid - x[lo]) * (y[lo + 1] - y[lo]);
        exact = y[lo] + div_round(num, x[lo + 1] - x[lo]);
        *kterm = fabsl((long double) (sid - x[lo]) * (long double) (y[lo + 1] - y[lo]) / (long double) (x[lo + 1] - x[lo]));
        for (size_t i = 0; i < n; ++i) if (x[i] == sid) { *anchor_hit = 1; exact = y[i]; *kterm = 0; }
    }
    return exact;
}

int verify_utc(struct jls_rd_s *rd, const model_t *m, int sig, const verify_opts_t *o) {
    const msig_t *s = &m->sig[sig];
    if (!s->defined || !s->fsr) return 0;
    size_t n = s->nutc;
    int64_t off = s->have ? s->first : 0;
    char key[200], wj[300];
    int bad = 0;
    struct jls_signal_def_s def; memset(&def, 0, sizeof(def));
    jls_rd_signal(rd, (uint16_t) sig, &def);
    utc_coll_t c; memset(&c, 0, sizeof(c));
    v_api("jls_rd_utc");
    int32_t rc = jls_rd_utc(rd, (uint16_t) sig, FAR_PAST, utc_cbk, &c);
    v_api("");
    snprintf(wj, sizeof(wj), "{\"signal\":%d,\"count\":%zu,\"udf\":%u,\"returned\":%zu,\"rate\":%u}", sig, n, def.utc_decimate_factor, c.n, def.sample_rate);
    if (rc) { snprintf(key, sizeof(key), "full|error|rc=%d|%s", rc, fk(o)); v_violation("C12", key, wj, "jls_rd_utc returned %d", rc); free(c.e); return 1; }
    if (c.n != n) { snprintf(key, sizeof(key), "full|count|%s|%s", c.n < n ? "fewer" : "more", fk(o)); v_violation("C12", key, wj, "jls_rd_utc delivered %zu pairs, %zu written", c.n, n); free(c.e); return 1; }
    int64_t *x = malloc((n + 1) * 8), *y = malloc((n + 1) * 8);
    for (size_t i = 0; i < n; ++i) {
        const op_t *op = &m->p->ops[s->utc[i]];
        x[i] = op->sid - off; y[i] = op->utc;
        if (c.e[i].sample_id != x[i] || c.e[i].timestamp != y[i]) {
            snprintf(key, sizeof(key), "full|mismatch|%s", fk(o));
            v_violation("C12", key, wj, "pair %zu is (%lld,%lld), written (%lld,%lld)", i, (long long) c.e[i].sample_id, (long long) c.e[i].timestamp, (long long) x[i], (long long) y[i]);
            bad = 1; break;
        }
    }
    v_count("C12", "pairs_compared", (int64_t) n);
    free(c.e);
    rng_t *r = o->rng;
    /* iteration from a sample id */
    for (int q = 0; q < 12 && !bad && n; ++q) {
        size_t pick = (size_t) rng_below(r, n);
        int64_t from = x[pick] + rng_range(r, -1, 1);
        if (q == 0) from = x[0] - 5;
        if (q == 1) from = x[n - 1] + 1;
        if (q == 2) from = rng_chance(r, 1, 2) ? INT64_MAX - (int64_t) rng_below(r, 3) : INT64_MAX - 1000;   /* the ends of the id range */
        if (q == 3) from = rng_chance(r, 1, 2) ? INT64_MIN + (int64_t) rng_below(r, 3) : INT64_MIN + 1000;
        utc_coll_t k; memset(&k, 0, sizeof(k));
        v_api("jls_rd_utc");
        rc = jls_rd_utc(rd, (uint16_t) sig, from, utc_cbk, &k);
        v_api("");
        size_t first_ge = n;
        for (size_t i = 0; i < n; ++i) if (x[i] >= from) { first_ge = i; break; }
        snprintf(wj, sizeof(wj), "{\"signal\":%d,\"count\":%zu,\"udf\":%u,\"from\":%lld,\"expected\":%zu,\"delivered\":%zu}", sig, n, def.utc_decimate_factor, (long long) from, n - first_ge, k.n);
        if (rc) { snprintf(key, sizeof(key), "from|error|rc=%d|%s", rc, fk(o)); v_violation("C12", key, wj, "jls_rd_utc(from) returned %d", rc); bad = 1; }
        else if (k.n != n - first_ge) { snprintf(key, sizeof(key), "from|count|%s|%s", k.n < n - first_ge ? "fewer" : "more", fk(o)); v_violation("C12", key, wj, "iteration from sample id %lld delivered %zu pairs, expected exactly %zu", (long long) from, k.n, n - first_ge); bad = 1; }
        else for (size_t i = 0; i < k.n; ++i) if (k.e[i].sample_id != x[first_ge + i] || k.e[i].timestamp != y[first_ge + i]) { snprintf(key, sizeof(key), "from|mismatch|%s", fk(o)); v_violation("C12", key, wj, "pair %zu differs", i); bad = 1; break; }
        v_count("C12", "iterations_from", 1);
        free(k.e);
    }
    /* conversions */
    if (!bad) {
        int64_t ts;
        v_api("jls_rd_sample_id_to_timestamp");
        rc = jls_rd_sample_id_to_timestamp(rd, (uint16_t) sig, 0, &ts);
        v_api("");
        if (n == 0) {
            if (rc == 0) { snprintf(key, sizeof(key), "conv|no-anchor-success|%s", fk(o)); v_violation("C12", key, wj, "conversion succeeded without any UTC entry"); bad = 1; }
        } else {
            int nq = 60;
            int64_t prev_q = INT64_MIN, prev_t = INT64_MIN;
            int64_t *qs = malloc((size_t) nq * 8);
            for (int q = 0; q < nq; ++q) {
                size_t pick = (size_t) rng_below(r, n);
                int64_t span = n > 1 ? x[n - 1] - x[0] : 1000;
                switch (q % 6) {
                    case 0: qs[q] = x[pick]; break;
                    case 1: qs[q] = x[pick] + rng_range(r, -1, 1); break;
                    case 2: qs[q] = pick + 1 < n ? (x[pick] + x[pick + 1]) / 2 : x[pick] + 7; break;
                    case 3: qs[q] = x[0] - rng_range(r, 1, span / 4 + 10); break;
                    case 4: qs[q] = x[n - 1] + rng_range(r, 1, span / 4 + 10); break;
                    default: qs[q] = rng_range(r, x[0], x[n - 1]); break;
                }
            }
            /* sort queries to check monotonicity */
            for (int a = 0; a < nq; ++a) for (int b = a + 1; b < nq; ++b) if (qs[b] < qs[a]) { int64_t tq = qs[a]; qs[a] = qs[b]; qs[b] = tq; }
            for (int q = 0; q < nq && !bad; ++q) {
                int64_t sid = qs[q];
                v_api("jls_rd_sample_id_to_timestamp");
                rc = jls_rd_sample_id_to_timestamp(rd, (uint16_t) sig, sid, &ts);
                v_api("");
                snprintf(wj, sizeof(wj), "{\"signal\":%d,\"anchors\":%zu,\"rate\":%u,\"sample_id\":%lld,\"x0\":%lld,\"xN\":%lld}", sig, n, def.sample_rate, (long long) sid, (long long) x[0], (long long) x[n - 1]);
                if (rc) { snprintf(key, sizeof(key), "conv|error|rc=%d|%s", rc, fk(o)); v_violation("C12", key, wj, "sample_id_to_timestamp returned %d", rc); bad = 1; break; }
                /* exact expectation */
                long double kterm;
                int anchor_hit = 0;
                __int128 exact = utc_exact(n, x, y, def.sample_rate, sid, &kterm, &anchor_hit);
                long double tol = anchor_hit ? 0 : 1 + kterm * ldexpl(1.0L, -50);
                if (n == 1) tol = anchor_hit ? 0 : 1.5L + kterm * ldexpl(1.0L, -50);
                long double err = fabsl((long double) ((__int128) ts - exact));
                if (err > tol) {
                    snprintf(key, sizeof(key), "conv|%s|%s", anchor_hit ? "anchor-not-exact" : (sid < x[0] ? "extrapolate-before" : sid > x[n - 1] ? "extrapolate-after" : "interpolate"), fk(o));
                    { size_t lo2 = 0; if (n > 1) { if (sid <= x[0]) lo2 = 0; else if (sid >= x[n - 1]) lo2 = n - 2; else for (size_t i = 0; i + 1 < n; ++i) if (sid >= x[i] && sid <= x[i + 1]) { lo2 = i; break; } }
                      snprintf(wj, sizeof(wj), "{\"signal\":%d,\"anchors\":%zu,\"rate\":%u,\"sample_id\":%lld,\"segment\":%zu,\"xa\":%lld,\"ya\":%lld,\"xb\":%lld,\"yb\":%lld}", sig, n, def.sample_rate, (long long) sid, lo2,
                               (long long) x[lo2], (long long) y[lo2], (long long) (n > 1 ? x[lo2 + 1] : 0), (long long) (n > 1 ? y[lo2 + 1] : 0)); }
                    v_violation("C12", key, wj, "sample id %lld -> time %lld, exact %lld (error %.1Lf ticks, allowed %.3Lf)", (long long) sid, (long long) ts, (long long) exact, err, tol);
                    bad = 1; break;
                }
                if (prev_q != INT64_MIN && sid >= prev_q && ts < prev_t) {
                    snprintf(key, sizeof(key), "conv|not-monotone|%s", fk(o));
                    v_violation("C12", key, wj, "time decreases: id %lld -> %lld but id %lld -> %lld", (long long) prev_q, (long long) prev_t, (long long) sid, (long long) ts);
                    bad = 1; break;
                }
                prev_q = sid; prev_t = ts;
                /* inverse */
                int64_t back;
                v_api("jls_rd_timestamp_to_sample_id");
                rc = jls_rd_timestamp_to_sample_id(rd, (uint16_t) sig, ts, &back);
                v_api("");
                if (rc) { snprintf(key, sizeof(key), "inv|error|rc=%d|%s", rc, fk(o)); v_violation("C12", key, wj, "timestamp_to_sample_id returned %d", rc); bad = 1; break; }
                /* where the clock stalls (or runs slower than one tick per sample) several ids share the time ts: any id whose exact
                 * time is ts, to within one sample, is a right answer; everywhere else that is the original id alone */
                int inv_ok = llabs(back - sid) <= 1;
                for (int db = -1; db <= 1 && !inv_ok; ++db) {
                    if ((db < 0 && back == INT64_MIN) || (db > 0 && back == INT64_MAX)) continue;
                    /* far outside the anchors the exact time of the returned id is not representable: never a right answer */
                    if (back + db < x[0] - (int64_t) 1e15 || back + db > x[n - 1] + (int64_t) 1e15) continue;
                    long double kt2; int ah2;
                    __int128 tb = utc_exact(n, x, y, def.sample_rate, back + db, &kt2, &ah2);
                    if (fabsl((long double) (tb - (__int128) ts)) <= 1.5L + kt2 * ldexpl(1.0L, -50)) inv_ok = 1;
                }
                if (!inv_ok) {
                    snprintf(key, sizeof(key), "inv|off|%s", fk(o));
                    v_violation("C12", key, wj, "id %lld -> time %lld -> id %lld", (long long) sid, (long long) ts, (long long) back);
                    bad = 1; break;
                }
                v_count("C12", "conversions", 1);
            }
            free(qs);
        }
    }
    free(x); free(y);
    return bad;
}

/* =====================================================================================
 * user data and definitions (C13)
 * ===================================================================================== */
typedef struct { uint16_t meta; uint8_t stype; uint32_t size; uint64_t h; } user_rec_t;
typedef struct { user_rec_t *a; size_t n, cap; } user_coll_t;
static int32_t user_cbk(void *ud, uint16_t meta, enum jls_storage_type_e st, uint8_t *data, uint32_t size) {
    user_coll_t *c = ud;
    if (c->n == c->cap) { c->cap = c->cap ? c->cap * 2 : 32; c->a = realloc(c->a, c->cap * sizeof(user_rec_t)); }
    user_rec_t *r = &c->a[c->n++];
    r->meta = meta; r->stype = (uint8_t) st; r->size = size; r->h = fnv1a(data, size, FNV_INIT);
    return 0;
}

int verify_user_data(struct jls_rd_s *rd, const model_t *m, const verify_opts_t *o) {
    user_coll_t c; memset(&c, 0, sizeof(c));
    char key[200], wj[200];
    v_api("jls_rd_user_data");
    int32_t rc = jls_rd_user_data(rd, user_cbk, &c);
    v_api("");
    int bad = 0;
    snprintf(wj, sizeof(wj), "{\"written\":%zu,\"returned\":%zu}", m->nuser, c.n);
    if (rc) { snprintf(key, sizeof(key), "user|error|rc=%d|%s", rc, fk(o)); v_violation("C13", key, wj, "jls_rd_user_data returned %d", rc); bad = 1; }
    else if (c.n != m->nuser) { snprintf(key, sizeof(key), "user|count|%s|%s", c.n < m->nuser ? "fewer" : "more", fk(o)); v_violation("C13", key, wj, "%zu user-data items returned, %zu written", c.n, m->nuser); bad = 1; }
    else for (size_t i = 0; i < c.n; ++i) {
        const op_t *op = &m->p->ops[m->user[i]];
        uint8_t *b = gen_payload(op->stype, op->dsize, op->dseed);
        uint64_t h = fnv1a(b, op->dsize, FNV_INIT);
        free(b);
        user_rec_t *g = &c.a[i];
        if (g->meta != (op->meta & 0x0fff) || g->stype != op->stype || g->size != op->dsize || g->h != h) {
            const char *what = g->meta != (op->meta & 0x0fff) ? "tag" : g->stype != op->stype ? "storage-type" : g->size != op->dsize ? "size" : "bytes";
            snprintf(key, sizeof(key), "user|mismatch|%s|%s", what, fk(o));
            snprintf(wj, sizeof(wj), "{\"item\":%zu,\"size\":%u,\"got_size\":%u,\"meta\":%u,\"got_meta\":%u}", i, op->dsize, g->size, op->meta, g->meta);
            v_violation("C13", key, wj, "user-data item %zu differs in %s", i, what);
            bad = 1; break;
        }
    }
    v_count("C13", "user_data_compared", (int64_t) c.n);
    free(c.a);
    return bad;
}

static int str_eq(const char *got, const char *want) {
    if (!want) want = "";
    if (!got) return 0;
    return !strcmp(got, want);
}

int verify_defs(struct jls_rd_s *rd, const model_t *m, const verify_opts_t *o) {
    char key[200], wj[300];
    int bad = 0;
    struct jls_source_def_s *src = NULL; uint16_t nsrc = 0;
    v_api("jls_rd_sources");
    int32_t rc = jls_rd_sources(rd, &src, &nsrc);
    v_api("");
    if (rc) { snprintf(key, sizeof(key), "sources|error|rc=%d|%s", rc, fk(o)); v_violation("C13", key, NULL, "jls_rd_sources returned %d", rc); return 1; }
    size_t k = 0;
    for (int id = 0; id < 256 && !bad; ++id) {
        if (!m->src_defined[id]) continue;
        snprintf(wj, sizeof(wj), "{\"source\":%d,\"position\":%zu,\"returned\":%u}", id, k, nsrc);
        if (k >= nsrc || src[k].source_id != id) {
            snprintf(key, sizeof(key), "sources|enumeration|%s", fk(o));
            v_violation("C13", key, wj, "source %d not returned at position %zu (got id %d)", id, k, k < nsrc ? src[k].source_id : -1);
            bad = 1; break;
        }
        if (id && m->src_op[id] >= 0) {
            const psrc_t *ps = &m->p->src[m->p->ops[m->src_op[id]].def];
            const char *g[5] = {src[k].name, src[k].vendor, src[k].model, src[k].version, src[k].serial_number};
            for (int q = 0; q < 5; ++q) if (!str_eq(g[q], ps->s[q])) {
                size_t wl = ps->s[q] ? strlen(ps->s[q]) : 0;
                snprintf(key, sizeof(key), "sources|string|%s|%s", wl > 65535 ? "huge" : wl > 1000 ? "long" : "short", fk(o));
                v_violation("C13", key, wj, "source %d string %d differs (written length %zu, got length %zu)", id, q, wl, g[q] ? strlen(g[q]) : 0);
                bad = 1; break;
            }
        }
        ++k;
    }
    if (!bad && k != nsrc) { snprintf(key, sizeof(key), "sources|extra|%s", fk(o)); v_violation("C13", key, NULL, "%u sources returned, %zu defined", nsrc, k); bad = 1; }
    v_count("C13", "sources_compared", (int64_t) k);

    struct jls_signal_def_s *sg = NULL; uint16_t nsg = 0;
    v_api("jls_rd_signals");
    rc = jls_rd_signals(rd, &sg, &nsg);
    v_api("");
    if (rc) { snprintf(key, sizeof(key), "signals|error|rc=%d|%s", rc, fk(o)); v_violation("C13", key, NULL, "jls_rd_signals returned %d", rc); return 1; }
    k = 0;
    for (int id = 0; id < 256 && !bad; ++id) {
        const msig_t *s = &m->sig[id];
        if (!s->defined) continue;
        snprintf(wj, sizeof(wj), "{\"signal\":%d,\"position\":%zu,\"returned\":%u}", id, k, nsg);
        if (k >= nsg || sg[k].signal_id != id) {
            snprintf(key, sizeof(key), "signals|enumeration|%s", fk(o));
            v_violation("C13", key, wj, "signal %d not returned at position %zu (got id %d)", id, k, k < nsg ? sg[k].signal_id : -1);
            bad = 1; break;
        }
        if (id) {
            const struct jls_signal_def_s *w = &s->ps->def, *g = &sg[k];
            struct jls_signal_def_s one;
            int32_t r1 = jls_rd_signal(rd, (uint16_t) id, &one);
            if (r1 || one.samples_per_data != g->samples_per_data || one.sample_decimate_factor != g->sample_decimate_factor || one.data_type != g->data_type) {
                snprintf(key, sizeof(key), "signals|rd_signal-disagrees|%s", fk(o));
                v_violation("C13", key, wj, "jls_rd_signal(%d) rc=%d disagrees with jls_rd_signals", id, r1); bad = 1; break;
            }
            const char *what = NULL;
            if (g->source_id != w->source_id) what = "source_id";
            else if (g->signal_type != w->signal_type) what = "signal_type";
            else if (g->data_type != w->data_type) what = "data_type";
            else if (g->sample_rate != (w->signal_type == JLS_SIGNAL_TYPE_FSR ? w->sample_rate : 0)) what = "sample_rate";
            else if (!str_eq(g->name, s->ps->name)) what = "name";
            else if (!str_eq(g->units, s->ps->units)) what = "units";
            else if (s->fsr && g->sample_id_offset != (s->have ? s->first : 0)) what = "sample_id_offset";
            if (what) {
                snprintf(key, sizeof(key), "signals|field|%s|%s", what, fk(o));
                v_violation("C13", key, wj, "signal %d field %s differs from the accepted definition", id, what); bad = 1; break;
            }
            /* the time-series decimation factors as used for storage: 0 -> default 100, 1 -> minimum 2, otherwise as given */
            {
                uint32_t ea = w->annotation_decimate_factor ? (w->annotation_decimate_factor < 2 ? 2 : w->annotation_decimate_factor) : 100;
                uint32_t eu = w->utc_decimate_factor ? (w->utc_decimate_factor < 2 ? 2 : w->utc_decimate_factor) : 100;
                if (g->annotation_decimate_factor != ea || g->utc_decimate_factor != eu) {
                    snprintf(key, sizeof(key), "signals|field|ts-decimate-factor|%s", fk(o));
                    v_violation("C13", key, wj, "signal %d: annotation/utc decimate factors requested (%u,%u), reported (%u,%u), used for storage (%u,%u)", id,
                                w->annotation_decimate_factor, w->utc_decimate_factor, g->annotation_decimate_factor, g->utc_decimate_factor, ea, eu);
                    bad = 1; break;
                }
            }
            /* user-specified non-zero parameters can only be rounded up; relations are C16's subject */
            if (w->samples_per_data && g->samples_per_data == 0) { v_violation("C13", "signals|zero-param", wj, "stored samples_per_data is 0"); bad = 1; break; }
        }
        ++k;
    }
    if (!bad && k != nsg) { snprintf(key, sizeof(key), "signals|extra|%s", fk(o)); v_violation("C13", key, NULL, "%u signals returned, %zu defined", nsg, k); bad = 1; }
    v_count("C13", "signals_compared", (int64_t) k);
    return bad;
}

/* =====================================================================================
 * whole file
 * ===================================================================================== */
int verify_file(const char *path, const model_t *m, const verify_opts_t *o) {
    struct jls_rd_s *rd = NULL;
    char key[128];
    v_api("jls_rd_open");
    int32_t rc = jls_rd_open(&rd, path);
    v_api("");
    if (rc) {
        snprintf(key, sizeof(key), "open-error|rc=%d|%s", rc, fk(o));
        v_violation(o->prop_len ? o->prop_len : "C01", key, NULL, "jls_rd_open of a closed file returned %d", rc);
        return 1;
    }
    int bad = 0;
    jd_t dec; int have_dec = 0;
    if (jd_load(&dec, path) == 0) { jd_decode(&dec); have_dec = 1; }
    if (o->check_defs) bad += verify_defs(rd, m, o);
    if (o->prop_data) bad += verify_all_fsr(rd, m, o, have_dec ? &dec : NULL);
    if (o->check_stats) {
        for (int sig = 1; sig < 256; ++sig) {
            const msig_t *s = &m->sig[sig];
            if (!s->defined || !s->fsr || !s->have) continue;
            int64_t got = 0;
            if (jls_rd_fsr_length(rd, (uint16_t) sig, &got)) continue;
            int64_t lim = got < msig_length(s) ? got : msig_length(s);
            bad += verify_stats_signal(rd, m, sig, o, lim);
        }
    }
    if (o->check_anno) for (int sig = 0; sig < 256; ++sig) if (m->sig[sig].defined) bad += verify_annotations(rd, m, sig, o);
    if (o->check_utc) for (int sig = 1; sig < 256; ++sig) if (m->sig[sig].defined && m->sig[sig].fsr) bad += verify_utc(rd, m, sig, o);
    if (o->check_user) bad += verify_user_data(rd, m, o);
    if (have_dec) jd_free(&dec);
    v_api("jls_rd_close");
    jls_rd_close(rd);
    v_api("");
    return bad;
}

/* =====================================================================================
 * canonical dump
 * ===================================================================================== */
typedef struct { uint64_t h; size_t n; uint64_t *seq; size_t cap; } hash_coll_t;
static int g_keep_seq;
void dump_keep_sequences(int on) { g_keep_seq = on; }
/* damaged originals: the copy may hold more than the reader reaches, and what the reader cannot read is not compared */
static int g_prefix_lenient;
void dump_prefix_lenient(int on) { g_prefix_lenient = on; }
/* a closed file that was altered but not cut short by a repair: an iteration that returns success must deliver everything
 * that was written (C04: an error, or exactly what was written) */
static int g_complete_on_success;
void prefix_complete_on_success(int on) { g_complete_on_success = on; }
static void coll_item(hash_coll_t *c) {
    if (g_keep_seq) {
        if (c->n == c->cap) { c->cap = c->cap ? c->cap * 2 : 32; c->seq = realloc(c->seq, c->cap * sizeof(uint64_t)); }
        c->seq[c->n] = c->h;
    }
    c->n++;
}
void dump_free(dump_t *d) {
    for (int i = 0; i < 256; ++i) { free(d->seq_anno[i]); free(d->seq_utc[i]); d->seq_anno[i] = d->seq_utc[i] = NULL; }
    free(d->seq_user); d->seq_user = NULL;
}
static int32_t dump_anno_cbk(void *ud, const struct jls_annotation_s *a) {
    hash_coll_t *c = ud;
    c->h = fnv1a(&a->timestamp, 8, c->h);
    uint8_t f[4] = {a->annotation_type, a->storage_type, a->group_id, 0};
    c->h = fnv1a(f, 4, c->h); c->h = fnv1a(&a->y, 4, c->h); c->h = fnv1a(&a->data_size, 4, c->h);
    c->h = fnv1a(a->data, a->data_size, c->h);
    coll_item(c);
    return 0;
}
static int32_t dump_utc_cbk(void *ud, const struct jls_utc_summary_entry_s *u, uint32_t n) {
    hash_coll_t *c = ud;
    for (uint32_t i = 0; i < n; ++i) { c->h = fnv1a(&u[i].sample_id, 8, c->h); c->h = fnv1a(&u[i].timestamp, 8, c->h); coll_item(c); }
    return 0;
}
static int32_t dump_user_cbk(void *ud, uint16_t meta, enum jls_storage_type_e st, uint8_t *data, uint32_t size) {
    hash_coll_t *c = ud;
    uint32_t s = (uint32_t) st;
    c->h = fnv1a(&meta, 2, c->h); c->h = fnv1a(&s, 4, c->h); c->h = fnv1a(&size, 4, c->h); c->h = fnv1a(data, size, c->h);
    coll_item(c);
    return 0;
}
static uint64_t hstr(const char *s, uint64_t h) { if (!s) s = "\x01NULL"; return fnv1a(s, strlen(s) + 1, h); }

int dump_file(const char *path, dump_t *d, uint64_t seed) {
    memset(d, 0, sizeof(*d));
    struct jls_rd_s *rd = NULL;
    v_api("jls_rd_open");
    int32_t rc = jls_rd_open(&rd, path);
    v_api("");
    if (rc) { d->open_rc = rc; return rc; }
    dump_reader(rd, d, seed);
    v_api("jls_rd_close");
    jls_rd_close(rd);
    v_api("");
    return 0;
}

int dump_reader(struct jls_rd_s *rd, dump_t *d, uint64_t seed) {
    memset(d, 0, sizeof(*d));
    v_api("dump");
    rng_t r; rng_seed(&r, seed);
    struct jls_source_def_s *src; uint16_t n;
    uint64_t h = FNV_INIT;
    if (jls_rd_sources(rd, &src, &n)) d->errors++;
    else for (uint16_t i = 0; i < n; ++i) { h = fnv1a(&src[i].source_id, 2, h); h = hstr(src[i].name, h); h = hstr(src[i].vendor, h); h = hstr(src[i].model, h); h = hstr(src[i].version, h); h = hstr(src[i].serial_number, h); }
    d->h_sources = h;
    struct jls_signal_def_s *sg; h = FNV_INIT;
    struct jls_signal_def_s defs[256]; uint16_t nsg = 0;
    if (jls_rd_signals(rd, &sg, &nsg)) { d->errors++; nsg = 0; }
    for (uint16_t i = 0; i < nsg; ++i) {
        defs[i] = sg[i];
        h = fnv1a(&sg[i].signal_id, 2, h); h = fnv1a(&sg[i].source_id, 2, h); h = fnv1a(&sg[i].signal_type, 1, h);
        h = fnv1a(&sg[i].data_type, 4, h); h = fnv1a(&sg[i].sample_rate, 4, h); h = fnv1a(&sg[i].samples_per_data, 4, h);
        h = fnv1a(&sg[i].sample_decimate_factor, 4, h); h = fnv1a(&sg[i].entries_per_summary, 4, h); h = fnv1a(&sg[i].summary_decimate_factor, 4, h);
        h = fnv1a(&sg[i].annotation_decimate_factor, 4, h); h = fnv1a(&sg[i].utc_decimate_factor, 4, h); h = fnv1a(&sg[i].sample_id_offset, 8, h);
        h = hstr(sg[i].name, h); h = hstr(sg[i].units, h);
    }
    d->h_signals = h;
    for (uint16_t i = 0; i < nsg; ++i) {
        int id = defs[i].signal_id;
        d->present[id] = 1;
        hash_coll_t c;
        memset(&c, 0, sizeof(c));
        c.h = FNV_INIT;
        int32_t rc = jls_rd_annotations(rd, (uint16_t) id, FAR_PAST, dump_anno_cbk, &c);
        if (rc) { d->errors++; c.h = fnv1a(&rc, 4, c.h); }
        d->h_anno[id] = c.h; d->n_anno[id] = c.n; d->seq_anno[id] = c.seq;
        if (defs[i].signal_type != JLS_SIGNAL_TYPE_FSR) continue;
        memset(&c, 0, sizeof(c));
        c.h = FNV_INIT;
        rc = jls_rd_utc(rd, (uint16_t) id, FAR_PAST, dump_utc_cbk, &c);
        if (rc) { d->errors++; c.h = fnv1a(&rc, 4, c.h); }
        d->h_utc[id] = c.h; d->n_utc[id] = c.n; d->seq_utc[id] = c.seq;
        int64_t len = -1;
        rc = jls_rd_fsr_length(rd, (uint16_t) id, &len);
        if (rc) { d->errors++; len = -1000 - rc; }
        d->length[id] = len;
        d->h_len[id] = fnv1a(&len, 8, FNV_INIT);
        const dtype_t *t = dtype_by_code(defs[i].data_type);
        uint64_t hs = FNV_INIT, hst = FNV_INIT;
        if (len > 0 && t) {
            /* samples: random partition, a function of (seed, signal) only so that two files are read the same way */
            rng_seed(&r, vmix(seed, (uint64_t) id));
            int64_t pos = 0;
            int64_t chunkmax = defs[i].samples_per_data * 2 + 13;
            while (pos < len) {
                int64_t ln = rng_range(&r, 1, chunkmax);
                if (pos + ln > len) ln = len - pos;
                size_t nb = rd_buf_bytes(t, ln);
                uint8_t *buf = calloc(nb + 1, 1);
                rc = jls_rd_fsr(rd, (uint16_t) id, pos, buf, ln);
                if (rc) { d->errors++; hs = fnv1a(&rc, 4, hs); free(buf); break; }
                /* mask trailing bits */
                int64_t nbits = ln * t->bits;
                size_t full = (size_t) (nbits / 8);
                hs = fnv1a(buf, full, hs);
                if (nbits & 7) { uint8_t last = (uint8_t) (buf[full] & ((1u << (nbits & 7)) - 1)); hs = fnv1a(&last, 1, hs); }
                free(buf);
                pos += ln;
            }
            /* statistics: fixed family */
            int64_t sdf = defs[i].sample_decimate_factor ? defs[i].sample_decimate_factor : 1;
            int64_t incs[6] = {1, 7, sdf, sdf * 2 + 1, sdf * 26, len};
            for (int q = 0; q < 6; ++q) {
                int64_t inc = incs[q];
                if (inc < 1 || inc > len) continue;
                int64_t cnt = len / inc; if (cnt > 50) cnt = 50;
                double *out = calloc((size_t) cnt * 4, sizeof(double));
                rc = jls_rd_fsr_statistics(rd, (uint16_t) id, 0, inc, out, cnt);
                if (rc) hst = fnv1a(&rc, 4, hst);
                else for (int64_t e = 0; e < cnt * 4; ++e) { double v = out[e]; if (v != v) v = -12345.678; float f = (float) v; hst = fnv1a(&f, 4, hst); }
                free(out);
            }
        }
        d->h_samples[id] = hs; d->h_stats[id] = hst;
    }
    hash_coll_t c; memset(&c, 0, sizeof(c)); c.h = FNV_INIT;
    int32_t rc = jls_rd_user_data(rd, dump_user_cbk, &c);
    if (rc) { d->errors++; c.h = fnv1a(&rc, 4, c.h); }
    d->h_user = c.h; d->n_user = c.n; d->seq_user = c.seq;
    v_api("");
    h = FNV_INIT;
    h = fnv1a(&d->h_sources, 8, h); h = fnv1a(&d->h_signals, 8, h); h = fnv1a(&d->h_user, 8, h);
    h = fnv1a(d->h_len, sizeof(d->h_len), h); h = fnv1a(d->h_samples, sizeof(d->h_samples), h); h = fnv1a(d->h_stats, sizeof(d->h_stats), h);
    h = fnv1a(d->h_anno, sizeof(d->h_anno), h); h = fnv1a(d->h_utc, sizeof(d->h_utc), h);
    d->h_all = h;
    return 0;
}

static const uint8_t *g_cmp_skip_fsr;   /* per-signal: do not compare length/samples/statistics */
void dump_compare_skip_fsr(const uint8_t *mask) { g_cmp_skip_fsr = mask; }

int dump_compare(const dump_t *a, const dump_t *b, const char *prop, const char *kp, const char *what) {
    char key[200];
    int bad = 0;
    if (a->open_rc != b->open_rc) { snprintf(key, sizeof(key), "%s|open-rc", kp); v_violation(prop, key, NULL, "%s: open returned %d vs %d", what, a->open_rc, b->open_rc); return 1; }
    if (a->open_rc) return 0;
    if (a->h_all == b->h_all) return 0;
#define CMP(field, name) if (a->field != b->field) { snprintf(key, sizeof(key), "%s|%s", kp, name); v_violation(prop, key, NULL, "%s: %s differ", what, name); bad++; }
    CMP(h_sources, "sources") CMP(h_signals, "signal-definitions") CMP(h_user, "user-data")
#undef CMP
    int reported[5] = {0, 0, 0, 0, 0};
    for (int i = 0; i < 256; ++i) {
        if (a->present[i] != b->present[i]) continue;
        if (a->h_anno[i] != b->h_anno[i] && !reported[3]++) { snprintf(key, sizeof(key), "%s|annotations", kp); v_violation(prop, key, NULL, "%s: signal %d annotations differ", what, i); bad++; }
        if (a->h_utc[i] != b->h_utc[i] && !reported[4]++) { snprintf(key, sizeof(key), "%s|utc", kp); v_violation(prop, key, NULL, "%s: signal %d UTC entries differ", what, i); bad++; }
        if (g_cmp_skip_fsr && g_cmp_skip_fsr[i]) continue;
        if (a->h_len[i] != b->h_len[i] && !reported[0]++) { snprintf(key, sizeof(key), "%s|length", kp); v_violation(prop, key, NULL, "%s: signal %d length %lld vs %lld", what, i, (long long) a->length[i], (long long) b->length[i]); bad++; }
        if (a->h_samples[i] != b->h_samples[i] && a->h_len[i] == b->h_len[i] && !reported[1]++) { snprintf(key, sizeof(key), "%s|samples", kp); v_violation(prop, key, NULL, "%s: signal %d samples differ", what, i); bad++; }
        if (a->h_stats[i] != b->h_stats[i] && a->h_len[i] == b->h_len[i] && a->h_samples[i] == b->h_samples[i] && !reported[2]++) { snprintf(key, sizeof(key), "%s|statistics", kp); v_violation(prop, key, NULL, "%s: signal %d statistics differ", what, i); bad++; }
    }
    return bad;
}

/* =====================================================================================
 * decoder vs model (C05)
 * ===================================================================================== */
static const char *tag_kind(const char *msg) { (void) msg; return ""; }

int decode_and_compare(const char *path, const model_t *m, const char *prop, const char *file_kind, int repaired) {
    jd_t d;
    char key[200], wj[300];
    if (jd_load(&d, path)) { v_violation(prop, "decoder|cannot-load", NULL, "cannot load %s", path); return 1; }
    jd_decode(&d);
    for (int sg = 1; sg < 256; ++sg) if (d.sig[sg].present && d.sig[sg].signal_type == 0) jd_check_summaries(&d, &d.sig[sg]);
    int bad = 0;
    /* report each distinct rule once per file */
    for (int i = 0; i < d.nerr; ++i) {
        int dup = 0;
        for (int j = 0; j < i; ++j) if (!strcmp(d.err[j].rule, d.err[i].rule)) dup = 1;
        if (dup) continue;
        snprintf(key, sizeof(key), "rule|%s|%s%s", d.err[i].rule, file_kind, tag_kind(d.err[i].msg));
        snprintf(wj, sizeof(wj), "{\"violations_of_rule_in_file\":%d,\"total\":%d,\"chunks\":%zu}", d.nerr_total, d.nerr_total, d.n);
        v_violation(prop, key, wj, "%s", d.err[i].msg);
        bad++;
    }
    if (d.orphans && !repaired) {
        snprintf(key, sizeof(key), "rule|R3.orphan|%s", file_kind);
        v_violation(prop, key, NULL, "%zu chunks are not reachable through their list", d.orphans);
        bad++;
    }
    v_count(prop, "chunks_decoded", (int64_t) d.n);
    v_count(prop, "orphans_seen", (int64_t) d.orphans);
    if (!m) { jd_free(&d); return bad; }
    /* content */
    for (int id = 0; id < 256; ++id) {
        if (m->src_defined[id] != d.src[id].present) {
            snprintf(key, sizeof(key), "content|source-set|%s", file_kind);
            v_violation(prop, key, NULL, "source %d: written %d, decoded %d", id, m->src_defined[id], d.src[id].present); bad++; break;
        }
        if (id && m->src_defined[id] && m->src_op[id] >= 0) {
            const psrc_t *ps = &m->p->src[m->p->ops[m->src_op[id]].def];
            for (int q = 0; q < 5; ++q) if (!str_eq(d.src[id].s[q], ps->s[q])) {
                snprintf(key, sizeof(key), "content|source-string|%s", file_kind);
                v_violation(prop, key, NULL, "source %d string %d differs on disk", id, q); bad++; break;
            }
        }
    }
    for (int id = 0; id < 256; ++id) {
        const msig_t *s = &m->sig[id];
        const jd_signal_t *ds = &d.sig[id];
        if ((s->defined != 0) != (ds->present != 0)) {
            snprintf(key, sizeof(key), "content|signal-set|%s", file_kind);
            v_violation(prop, key, NULL, "signal %d: written %d, decoded %d", id, s->defined, ds->present); bad++; break;
        }
        if (!s->defined || !id) continue;
        const struct jls_signal_def_s *w = &s->ps->def;
        if (ds->source_id != w->source_id || ds->signal_type != w->signal_type || ds->data_type != w->data_type ||
            !str_eq(ds->name, s->ps->name) || !str_eq(ds->units, s->ps->units)) {
            snprintf(key, sizeof(key), "content|signal-def|%s", file_kind);
            v_violation(prop, key, NULL, "signal %d definition on disk differs from the accepted one", id); bad++;
        }
        /* annotations */
        const jd_list_t *al = &ds->data[JD_TT_ANNO];
        snprintf(wj, sizeof(wj), "{\"signal\":%d,\"written\":%zu,\"on_disk\":%zu}", id, s->nanno, al->n);
        if (al->n != s->nanno) { snprintf(key, sizeof(key), "content|anno-count|%s", file_kind); v_violation(prop, key, wj, "signal %d: %zu annotation chunks on disk, %zu written", id, al->n, s->nanno); bad++; }
        else for (size_t i = 0; i < al->n; ++i) {
            const jd_chunk_t *c = &d.ch[al->idx[i]];
            const op_t *op = &m->p->ops[s->anno[i]];
            if (c->plen < 28) continue;
            const uint8_t *p = c->payload;
            int64_t ts; memcpy(&ts, p, 8);
            uint32_t dsz; memcpy(&dsz, p + 24, 4);
            float y; memcpy(&y, p + 20, 4);
            uint8_t *b = gen_payload(op->stype, op->dsize, op->dseed);
            int same = ts == op->ts && p[16] == op->atype && p[17] == op->stype && p[18] == op->group && !memcmp(&y, &op->y, 4) && dsz == op->dsize &&
                       (c->plen == 28 + (uint64_t) dsz || (op->stype != JLS_STORAGE_TYPE_BINARY && c->plen == 29 + (uint64_t) dsz)) && !memcmp(p + 28, b, dsz);
            free(b);
            if (!same) { snprintf(key, sizeof(key), "content|anno|%s", file_kind); v_violation(prop, key, wj, "signal %d annotation %zu on disk differs from what was written", id, i); bad++; break; }
        }
        if (!s->fsr) continue;
        /* utc */
        const jd_list_t *ul = &ds->data[JD_TT_UTC];
        if (ul->n != s->nutc) { snprintf(key, sizeof(key), "content|utc-count|%s", file_kind); v_violation(prop, key, NULL, "signal %d: %zu UTC chunks on disk, %zu written", id, ul->n, s->nutc); bad++; }
        else for (size_t i = 0; i < ul->n; ++i) {
            const jd_chunk_t *c = &d.ch[ul->idx[i]];
            const op_t *op = &m->p->ops[s->utc[i]];
            if (c->plen != 24) continue;
            int64_t sid, utc; memcpy(&sid, c->payload, 8); memcpy(&utc, c->payload + 16, 8);
            if (sid != op->sid || utc != op->utc) { snprintf(key, sizeof(key), "content|utc|%s", file_kind); v_violation(prop, key, NULL, "signal %d UTC entry %zu on disk differs", id, i); bad++; break; }
        }
        /* samples of stored blocks */
        if (s->have) {
            if (!ds->fsr_have || ds->fsr_first != s->first) {
                snprintf(key, sizeof(key), "content|fsr-first|%s", file_kind);
                v_violation(prop, key, NULL, "signal %d first sample id on disk %lld, written %lld", id, (long long) ds->fsr_first, (long long) s->first); bad++;
            } else {
                const jd_list_t *dl = &ds->data[JD_TT_FSR];
                int64_t total = msig_length(s);
                for (size_t i = 0; i < dl->n; ++i) {
                    const jd_chunk_t *c = &d.ch[dl->idx[i]];
                    if (c->plen < 16) continue;
                    int64_t ts; uint32_t cnt; memcpy(&ts, c->payload, 8); memcpy(&cnt, c->payload + 8, 4);
                    int64_t k0 = ts - s->first;
                    if (k0 < 0 || k0 + cnt > total) { snprintf(key, sizeof(key), "content|fsr-range|%s", file_kind); v_violation(prop, key, NULL, "signal %d DATA chunk covers samples outside what was written", id); bad++; break; }
                    if (c->plen < 16 + ((uint64_t) cnt * s->dt->bits + 7) / 8) continue;
                    int64_t fd = 0;
                    if (!bits_equal(c->payload + 16, 0, s->data, k0 * s->dt->bits, (int64_t) cnt * s->dt->bits, &fd)) {
                        int64_t k = k0 + fd / s->dt->bits;
                        int gap = (s->gap[k >> 3] >> (k & 7)) & 1;
                        /* gap fill of floats may use any NaN */
                        int ok = 0;
                        if (gap && s->dt->kind == 2) {
                            ok = 1;
                            for (int64_t q = 0; q < cnt; ++q) {
                                int64_t kk = k0 + q;
                                if (bits_equal(c->payload + 16, q * s->dt->bits, s->data, kk * s->dt->bits, s->dt->bits, NULL)) continue;
                                int g2 = (s->gap[kk >> 3] >> (kk & 7)) & 1;
                                if (!(g2 && isnan((double) sample_value(c->payload + 16, q, s->dt)))) { ok = 0; k = kk; break; }
                            }
                        }
                        if (!ok) {
                            snprintf(key, sizeof(key), "content|fsr-samples|bits=%d%s|%s", s->dt->bits, gap ? "|gap" : "", file_kind);
                            v_violation(prop, key, NULL, "signal %d sample %lld on disk differs from what was written", id, (long long) k); bad++; break;
                        }
                    }
                }
                /* every sample either stored or covered by an index entry that is 0 (omitted) */
                if (ds->fsr_end - ds->fsr_first > total) { snprintf(key, sizeof(key), "content|fsr-extra|%s", file_kind); v_violation(prop, key, NULL, "signal %d has more samples on disk than written", id); bad++; }
            }
        } else if (ds->fsr_have) {
            snprintf(key, sizeof(key), "content|fsr-phantom|%s", file_kind); v_violation(prop, key, NULL, "signal %d has samples on disk but none were written", id); bad++;
        }
    }
    /* user data: first chunk is the INVALID-type sentinel written at open */
    {
        /* later chunks of that type are placeholders a caller asked for: they carry no item */
        size_t nu = 0;
        size_t *items = malloc((d.user.n + 1) * sizeof(size_t));
        for (size_t i = 1; i < d.user.n; ++i) if ((d.ch[d.user.idx[i]].meta >> 12) != JLS_STORAGE_TYPE_INVALID) items[nu++] = d.user.idx[i];
        if (nu != m->nuser) { snprintf(key, sizeof(key), "content|user-count|%s", file_kind); v_violation(prop, key, NULL, "%zu user-data chunks on disk, %zu written", nu, m->nuser); bad++; }
        else for (size_t i = 0; i < nu; ++i) {
            const jd_chunk_t *c = &d.ch[items[i]];
            const op_t *op = &m->p->ops[m->user[i]];
            uint8_t *b = gen_payload(op->stype, op->dsize, op->dseed);
            int same = (c->meta & 0x0fff) == (op->meta & 0x0fff) && (c->meta >> 12) == op->stype && c->plen == op->dsize && (!c->plen || !memcmp(c->payload, b, c->plen));
            free(b);
            if (!same) { snprintf(key, sizeof(key), "content|user|%s", file_kind); v_violation(prop, key, NULL, "user-data item %zu on disk differs", i); bad++; break; }
        }
        free(items);
    }
    jd_free(&d);
    return bad;
}

/* =====================================================================================
 * prefix semantics (files reopened after a crash)
 * ===================================================================================== */
int verify_prefix(struct jls_rd_s *rd, const model_t *m, const char *prop, rng_t *r, const char *path, int64_t *lengths_out, const char *kind) {
    return verify_prefix_ex(rd, m, prop, r, path, lengths_out, kind, 0);
}

int verify_prefix_ex(struct jls_rd_s *rd, const model_t *m, const char *prop, rng_t *r, const char *path, int64_t *lengths_out, const char *kind, int errors_ok) {
    char key[200], wj[300];
    int bad = 0;
    jd_t dec; int have_dec = 0;
    if (jd_load(&dec, path) == 0) { jd_decode(&dec); have_dec = 1; }
    verify_opts_t o; memset(&o, 0, sizeof(o));
    o.prop_len = prop; o.prop_data = prop; o.prop_stats = prop; o.rng = r; o.file_kind = kind ? kind : "repaired"; o.windows = 6; o.errors_ok = errors_ok;
    /* definitions: whatever is returned must be something that was submitted */
    struct jls_source_def_s *src = NULL; uint16_t nsrc = 0;
    v_api("jls_rd_sources");
    if (!jls_rd_sources(rd, &src, &nsrc)) {
        for (uint16_t i = 0; i < nsrc; ++i) {
            int id = src[i].source_id;
            if (id >= 256 || !m->src_defined[id]) { snprintf(key, sizeof(key), "prefix|phantom-source"); v_violation(prop, key, NULL, "source %d returned but never defined", id); bad++; continue; }
            if (id && m->src_op[id] >= 0) {
                const psrc_t *ps = &m->p->src[m->p->ops[m->src_op[id]].def];
                const char *g[5] = {src[i].name, src[i].vendor, src[i].model, src[i].version, src[i].serial_number};
                for (int q = 0; q < 5; ++q) if (!str_eq(g[q], ps->s[q])) { v_violation(prop, "prefix|source-altered", NULL, "source %d string %d altered", id, q); bad++; break; }
            }
        }
    }
    struct jls_signal_def_s *sg = NULL; uint16_t nsg = 0;
    struct jls_signal_def_s defs[256];
    v_api("jls_rd_signals");
    if (jls_rd_signals(rd, &sg, &nsg)) nsg = 0;
    v_api("");
    for (uint16_t i = 0; i < nsg; ++i) defs[i] = sg[i];
    for (uint16_t i = 0; i < nsg; ++i) {
        int id = defs[i].signal_id;
        if (id >= 256 || !m->sig[id].defined) { v_violation(prop, "prefix|phantom-signal", NULL, "signal %d returned but never defined", id); bad++; continue; }
        const msig_t *s = &m->sig[id];
        if (id) {
            const struct jls_signal_def_s *w = &s->ps->def;
            if (defs[i].source_id != w->source_id || defs[i].signal_type != w->signal_type || defs[i].data_type != w->data_type || !str_eq(defs[i].name, s->ps->name) || !str_eq(defs[i].units, s->ps->units)) {
                v_violation(prop, "prefix|signal-altered", NULL, "signal %d definition altered", id); bad++; continue;
            }
        }
        int64_t off = defs[i].sample_id_offset;
        /* annotations: in-order subsequence, unaltered */
        {
            anno_coll_t c; memset(&c, 0, sizeof(c));
            v_api("jls_rd_annotations");
            int32_t rc = jls_rd_annotations(rd, (uint16_t) id, FAR_PAST, anno_cbk, &c);
            v_api("");
            if (!rc) {
                size_t j = 0;
                for (size_t k = 0; k < c.n; ++k) {
                    int found = 0;
                    for (; j < s->nanno; ++j) {
                        anno_rec_t e; model_anno(m, id, j, &e);
                        /* model_anno rebases by the model's first id; re-rebase by what the reader reports */
                        const op_t *op = &m->p->ops[s->anno[j]];
                        e.ts = op->ts - (s->fsr ? off : 0);
                        if (anno_eq(&c.a[k], &e)) { found = 1; ++j; break; }
                    }
                    if (!found) { snprintf(key, sizeof(key), "prefix|annotation-not-submitted"); v_violation(prop, key, NULL, "signal %d: returned annotation %zu (ts %lld, size %u) is not an unaltered, in-order member of what was written", id, k, (long long) c.a[k].ts, c.a[k].size); bad++; break; }
                }
                v_count(prop, "annotations_checked", (int64_t) c.n);
                if (g_complete_on_success && c.n < s->nanno) {
                    v_violation(prop, "prefix|incomplete-without-error|annotations", NULL, "signal %d: jls_rd_annotations returned 0 and delivered %zu of %zu annotations", id, c.n, s->nanno); bad++;
                }
            } else v_count(prop, "annotation_iteration_errors", 1);
            free(c.a);
        }
        if (defs[i].signal_type != JLS_SIGNAL_TYPE_FSR) continue;
        /* UTC */
        {
            utc_coll_t c; memset(&c, 0, sizeof(c));
            v_api("jls_rd_utc");
            int32_t rc = jls_rd_utc(rd, (uint16_t) id, FAR_PAST, utc_cbk, &c);
            v_api("");
            if (!rc) {
                size_t j = 0;
                for (size_t k = 0; k < c.n; ++k) {
                    int found = 0;
                    for (; j < s->nutc; ++j) {
                        const op_t *op = &m->p->ops[s->utc[j]];
                        if (c.e[k].sample_id == op->sid - off && c.e[k].timestamp == op->utc) { found = 1; ++j; break; }
                    }
                    if (!found) { v_violation(prop, "prefix|utc-not-submitted", NULL, "signal %d: returned UTC pair %zu (%lld,%lld) is not an in-order member of what was written", id, k, (long long) c.e[k].sample_id, (long long) c.e[k].timestamp); bad++; break; }
                }
                v_count(prop, "utc_checked", (int64_t) c.n);
                if (g_complete_on_success && c.n < s->nutc) {
                    v_violation(prop, "prefix|incomplete-without-error|utc", NULL, "signal %d: jls_rd_utc returned 0 and delivered %zu of %zu pairs", id, c.n, s->nutc); bad++;
                }
                /* iteration from an id: what the full iteration returned at or after it, nothing before it (on a file without damage) */
                if (c.n && r && !g_prefix_lenient) {
                    size_t pick = (size_t) rng_below(r, c.n);
                    int64_t from = c.e[pick].sample_id + rng_range(r, -1, 1);
                    utc_coll_t k2; memset(&k2, 0, sizeof(k2));
                    v_api("jls_rd_utc");
                    int32_t rc2 = jls_rd_utc(rd, (uint16_t) id, from, utc_cbk, &k2);
                    v_api("");
                    if (!rc2) {
                        size_t first = 0; while (first < c.n && c.e[first].sample_id < from) ++first;
                        int same = k2.n == c.n - first;
                        for (size_t q = 0; same && q < k2.n; ++q) if (k2.e[q].sample_id != c.e[first + q].sample_id || k2.e[q].timestamp != c.e[first + q].timestamp) same = 0;
                        if (!same && !errors_ok) {
                            snprintf(key, sizeof(key), "prefix|utc-from|%s", k2.n > c.n - first ? "more" : k2.n < c.n - first ? "fewer" : "different");
                            v_violation(prop, key, NULL, "signal %d: jls_rd_utc from %lld delivered %zu pairs, the full iteration holds %zu at or after it", id, (long long) from, k2.n, c.n - first); bad++;
                        }
                        v_count(prop, "utc_from_checked", 1);
                    }
                    free(k2.e);
                }
            } else v_count(prop, "utc_iteration_errors", 1);
            free(c.e);
        }
        /* sample id -> time conversion: a call that failed (the UTC entries could not be loaded) must not make the same call succeed later */
        {
            int64_t t1 = 0, t2 = 0;
            v_api("jls_rd_sample_id_to_timestamp");
            int32_t c1 = jls_rd_sample_id_to_timestamp(rd, (uint16_t) id, 0, &t1);
            int32_t c2 = jls_rd_sample_id_to_timestamp(rd, (uint16_t) id, 0, &t2);
            v_api("");
            if ((c1 && !c2) || (!c1 && !c2 && t1 != t2)) {
                snprintf(key, sizeof(key), "prefix|conversion-inconsistent|%s", c1 ? "error-then-success" : "value-changed");
                v_violation(prop, key, NULL, "signal %d: jls_rd_sample_id_to_timestamp(0) returned %d then %d (%lld, %lld)", id, c1, c2, (long long) t1, (long long) t2); bad++;
            }
            v_count(prop, "conversions_checked", 1);
        }
        /* samples */
        int64_t got = -1;
        v_api("jls_rd_fsr_length");
        int32_t rc = jls_rd_fsr_length(rd, (uint16_t) id, &got);
        v_api("");
        if (rc) { v_count(prop, "length_errors", 1); if (lengths_out) lengths_out[id] = -1; continue; }
        if (lengths_out) lengths_out[id] = got;
        int64_t exp = msig_length(s);
        snprintf(wj, sizeof(wj), "{\"signal\":%d,\"type\":\"%s\",\"submitted\":%lld,\"got\":%lld}", id, s->dt->name, (long long) exp, (long long) got);
        if (got > exp || got < 0) { snprintf(key, sizeof(key), "prefix|length-exceeds-submitted"); v_violation(prop, key, wj, "signal %d length %lld but only %lld samples were submitted", id, (long long) got, (long long) exp); bad++; continue; }
        if (got > 0 && s->have && off != s->first) { v_violation(prop, "prefix|first-id-altered", wj, "signal %d first sample id %lld, written %lld", id, (long long) off, (long long) s->first); bad++; continue; }
        if (got > 0) {
            win_t *wins = NULL; size_t nw = 0, cap = 0;
            gen_windows(&wins, &nw, &cap, id, got, defs[i].samples_per_data, 4, r, s->dt->bits);
            const jd_signal_t *ds = (have_dec && dec.sig[id].present) ? &dec.sig[id] : NULL;
            for (size_t k = 0; k < nw; ++k) if (check_window(rd, m, &wins[k], &o, have_dec ? &dec : NULL, ds, defs[i].samples_per_data, 1)) { bad++; break; }
            v_count(prop, "windows_compared", (int64_t) nw);
            free(wins);
            /* statistics agree with the submitted prefix */
            if (s->dt->bits != 64 || 1) {
                int64_t sdf = defs[i].sample_decimate_factor ? defs[i].sample_decimate_factor : 1;
                int64_t sumdf0 = defs[i].summary_decimate_factor ? defs[i].summary_decimate_factor : 10;
                for (int q = 0; q < 5 && !bad; ++q) {
                    int64_t incr, count, start = 0;
                    if (q == 0) { incr = got; count = 1; }
                    else if (q == 1) { incr = sdf; count = got / sdf; if (count > 40) count = 40; }
                    else if (q == 2) { incr = 1 + (int64_t) rng_below(r, (uint64_t) (got < 50 ? got : 50)); count = 1; }
                    else {
                        /* served from level-1 (q 3) and level-2 (q 4) summaries, at a random start */
                        int64_t k = 1 + (int64_t) rng_below(r, 3);
                        incr = sdf * (q == 4 ? sumdf0 : 1) * k;
                        count = (25 + k - 1) / k + (int64_t) rng_below(r, 4);
                        if (rng_chance(r, 1, 3)) { incr = incr * count + (int64_t) rng_below(r, (uint64_t) sdf); count = 1; }
                        if (incr * count > got) continue;
                        start = (int64_t) rng_below(r, (uint64_t) (got - incr * count + 1));
                    }
                    if (count < 1 || incr < 1 || start + incr * count > got) continue;
                    int lv = 0; int64_t mult = sdf; int64_t sumdf = sumdf0;
                    while (incr >= mult && incr * count >= 25 * mult) { ++lv; mult *= sumdf; }
                    /* blocks omitted on request hold synthesised samples: statistics over them are not comparable */
                    if (s->omit_ever && s->dt->bits > 8) continue;
                    bad += check_stats_request(rd, m, id, &o, start, incr, count, &defs[i], lv);
                }
            }
        }
    }
    /* user data: in-order subsequence */
    {
        user_coll_t c; memset(&c, 0, sizeof(c));
        v_api("jls_rd_user_data");
        int32_t rc = jls_rd_user_data(rd, user_cbk, &c);
        v_api("");
        if (!rc) {
            size_t j = 0;
            for (size_t k = 0; k < c.n; ++k) {
                int found = 0;
                for (; j < m->nuser; ++j) {
                    const op_t *op = &m->p->ops[m->user[j]];
                    uint8_t *b = gen_payload(op->stype, op->dsize, op->dseed);
                    uint64_t h = fnv1a(b, op->dsize, FNV_INIT);
                    free(b);
                    if (c.a[k].meta == (op->meta & 0x0fff) && c.a[k].stype == op->stype && c.a[k].size == op->dsize && c.a[k].h == h) { found = 1; ++j; break; }
                }
                if (!found) { v_violation(prop, "prefix|user-data-not-submitted", NULL, "returned user-data item %zu (size %u) is not an unaltered, in-order member of what was written", k, c.a[k].size); bad++; break; }
            }
            v_count(prop, "user_data_checked", (int64_t) c.n);
            if (g_complete_on_success && c.n < m->nuser) {
                v_violation(prop, "prefix|incomplete-without-error|user-data", NULL, "jls_rd_user_data returned 0 and delivered %zu of %zu items", c.n, m->nuser); bad++;
            }
        }
        free(c.a);
    }
    if (have_dec) jd_free(&dec);
    return bad;
}

static int seq_prefix(size_t na, const uint64_t *sa, uint64_t ha, size_t nb, const uint64_t *sb, uint64_t hb) {
    /* 0: equal, 1: a is a proper prefix of b, -1: neither */
    if (na == nb && g_prefix_lenient) return (na == 0 || (sa && sb && sa[na - 1] == sb[na - 1])) ? 0 : -1;   /* the final hash also covers the return code of the iteration */
    if (na == nb) return ha == hb ? 0 : -1;
    if (na > nb) return -1;
    if (na == 0) return 1;
    if (!sa || !sb) return -1;
    return sa[na - 1] == sb[na - 1] ? 1 : -1;
}

int dump_compare_prefix(const dump_t *a, const dump_t *b, const char *path_a, const char *path_b, const char *prop, const char *kp, const uint8_t *skip_fsr) {
    char key[200];
    int bad = 0;
    if (a->open_rc || b->open_rc) { if (a->open_rc != b->open_rc) { snprintf(key, sizeof(key), "%s|open-rc", kp); v_violation(prop, key, NULL, "open returned %d vs %d", a->open_rc, b->open_rc); return 1; } return 0; }
    if (a->h_sources != b->h_sources) { snprintf(key, sizeof(key), "%s|sources", kp); v_violation(prop, key, NULL, "sources differ"); bad++; }
    int r = seq_prefix(a->n_user, a->seq_user, a->h_user, b->n_user, b->seq_user, b->h_user);
    if (r < 0) { snprintf(key, sizeof(key), "%s|user-data", kp); v_violation(prop, key, NULL, "user data of the original (%zu items) is not a prefix of the copy's (%zu items)", a->n_user, b->n_user); bad++; }
    else if (r > 0 && !g_prefix_lenient) { snprintf(key, sizeof(key), "%s|copy-has-more|user-data|%s", kp, b->n_user - a->n_user == 1 ? "one" : "several"); v_violation(prop, key, NULL, "the copy holds %zu user-data items, the reopened original %zu", b->n_user, a->n_user); bad++; }
    struct jls_rd_s *ra = NULL, *rb = NULL;
    for (int i = 0; i < 256; ++i) {
        if (!a->present[i] && !b->present[i]) continue;
        if (a->present[i] != b->present[i]) { snprintf(key, sizeof(key), "%s|signal-set", kp); v_violation(prop, key, NULL, "signal %d present in one file only", i); bad++; continue; }
        /* the copy holds the signal's first data block and the reopened original does not (the block was complete but not yet linked: the
         * copy-has-more finding): the copy then knows the first sample id and reports annotation and UTC ids relative to it, the
         * original relative to 0.  Same cause, its own key. */
        int origin_differs = !g_prefix_lenient && a->length[i] <= 0 && b->length[i] > 0;
        r = seq_prefix(a->n_anno[i], a->seq_anno[i], a->h_anno[i], b->n_anno[i], b->seq_anno[i], b->h_anno[i]);
        if (r < 0 && origin_differs && a->n_anno[i] <= b->n_anno[i]) { snprintf(key, sizeof(key), "%s|copy-has-more|samples|first-block|annotation-ids-shifted", kp); v_violation(prop, key, NULL, "signal %d: the copy holds the first data block (%lld samples), the reopened original none: annotation ids are relative to different origins", i, (long long) b->length[i]); bad++; }
        else
        if (r < 0) { snprintf(key, sizeof(key), "%s|annotations", kp); v_violation(prop, key, NULL, "signal %d: annotations of the original (%zu) are not a prefix of the copy's (%zu)", i, a->n_anno[i], b->n_anno[i]); bad++; }
        else if (r > 0 && !g_prefix_lenient) { snprintf(key, sizeof(key), "%s|copy-has-more|annotations|%s", kp, b->n_anno[i] - a->n_anno[i] == 1 ? "one" : "several"); v_violation(prop, key, NULL, "signal %d: the copy holds %zu annotations, the reopened original %zu", i, b->n_anno[i], a->n_anno[i]); bad++; }
        r = seq_prefix(a->n_utc[i], a->seq_utc[i], a->h_utc[i], b->n_utc[i], b->seq_utc[i], b->h_utc[i]);
        if (r < 0 && origin_differs && a->n_utc[i] <= b->n_utc[i]) { snprintf(key, sizeof(key), "%s|copy-has-more|samples|first-block|utc-ids-shifted", kp); v_violation(prop, key, NULL, "signal %d: the copy holds the first data block (%lld samples), the reopened original none: UTC sample ids are relative to different origins", i, (long long) b->length[i]); bad++; }
        else
        if (r < 0) { snprintf(key, sizeof(key), "%s|utc", kp); v_violation(prop, key, NULL, "signal %d: UTC entries of the original (%zu) are not a prefix of the copy's (%zu)", i, a->n_utc[i], b->n_utc[i]); bad++; }
        else if (r > 0 && !g_prefix_lenient) { snprintf(key, sizeof(key), "%s|copy-has-more|utc", kp); v_violation(prop, key, NULL, "signal %d: the copy holds %zu UTC entries, the reopened original %zu", i, b->n_utc[i], a->n_utc[i]); bad++; }
        if (a->length[i] <= 0 && b->length[i] <= 0) continue;
        if (skip_fsr && skip_fsr[i]) continue;
        if (a->length[i] > b->length[i] && g_prefix_lenient) {
            /* tolerated when the original cannot read the samples the copy lacks */
            if (!ra && (jls_rd_open(&ra, path_a) || jls_rd_open(&rb, path_b))) break;
            struct jls_signal_def_s d0; int64_t ln = a->length[i] - b->length[i];
            if (ln > 65536) ln = 65536;
            if (!jls_rd_signal(ra, (uint16_t) i, &d0)) {
                const dtype_t *t0 = dtype_by_code(d0.data_type);
                uint8_t *x0 = calloc(rd_buf_bytes(t0, ln) + 1, 1);
                int32_t r0 = jls_rd_fsr(ra, (uint16_t) i, b->length[i], x0, ln);
                free(x0);
                if (r0) continue;
            }
        }
        if (a->length[i] > b->length[i]) { snprintf(key, sizeof(key), "%s|copy-shorter", kp); v_violation(prop, key, NULL, "signal %d: copy has %lld samples, the reopened original %lld", i, (long long) b->length[i], (long long) a->length[i]); bad++; continue; }
        /* common prefix must read the same */
        if (!ra && (jls_rd_open(&ra, path_a) || jls_rd_open(&rb, path_b))) break;
        struct jls_signal_def_s def;
        if (jls_rd_signal(ra, (uint16_t) i, &def)) continue;
        if (a->length[i] < b->length[i] && !g_prefix_lenient) {
            snprintf(key, sizeof(key), "%s|copy-has-more|samples|%s", kp, b->length[i] - a->length[i] <= (int64_t) def.samples_per_data ? "one-block" : "several-blocks");
            v_violation(prop, key, NULL, "signal %d: the copy has %lld samples, the reopened original %lld (block = %u)", i, (long long) b->length[i], (long long) a->length[i], def.samples_per_data); bad++;
        }
        const dtype_t *t = dtype_by_code(def.data_type);
        int64_t n = a->length[i], pos = 0;
        while (pos < n && t) {
            int64_t wmax = g_prefix_lenient ? (def.samples_per_data ? def.samples_per_data : 16) : 65536;
            int64_t ln = n - pos > wmax ? wmax : n - pos;
            size_t nb = rd_buf_bytes(t, ln);
            uint8_t *xa = calloc(nb + 1, 1), *xb = calloc(nb + 1, 1);
            int32_t r1 = jls_rd_fsr(ra, (uint16_t) i, pos, xa, ln), r2 = jls_rd_fsr(rb, (uint16_t) i, pos, xb, ln);
            int same = r1 == r2 && (r1 || bits_equal(xa, 0, xb, 0, ln * t->bits, NULL));
            if (g_prefix_lenient && r1) same = 1;   /* the original cannot read this window: nothing to compare */
            free(xa); free(xb);
            if (!same) { snprintf(key, sizeof(key), "%s|samples|%s", kp, r1 && !r2 ? "original-read-error" : (!r1 && r2 ? "copy-read-error" : (r1 ? "both-error-differently" : "values"))); v_violation(prop, key, NULL, "signal %d: samples [%lld,+%lld) read differently from original and copy (rc %d vs %d)", i, (long long) pos, (long long) ln, r1, r2); bad++; break; }
            pos += ln;
        }
    }
    if (ra) jls_rd_close(ra);
    if (rb) jls_rd_close(rb);
    return bad;
}
