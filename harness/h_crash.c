/*
 * C03 / C19(b) (+ C05 on repaired files, C17 on unclosed originals):
 * run a writer program under the I/O log, then materialise EVERY crash image (first k backend
 * writes applied in full, optionally plus a byte prefix of write k+1), open each with the real
 * reader in a forked child and judge what it exposes against the submission model.
 */
#define _GNU_SOURCE
#include "vcommon.h"
#include "model.h"
#include "gen.h"
#include "iolog.h"
#include "jlsdec.h"
#include "jls/writer.h"
#include "jls/reader.h"
#include "jls/copy.h"
#include "jls/ec.h"
#include "jls/time.h"
#include <stdlib.h>
#include <string.h>
#include <math.h>
#include <unistd.h>
#include <fcntl.h>

#define NSHARD 16

typedef struct { int thorough; int partial_every; int copy_every; } ctx_t;

typedef struct { size_t k; size_t partial; uint8_t cls; uint8_t embeds; } image_t;   /* cls: 0 between writes, 1 torn append, 2 torn in-place chunk-header update, 3 torn in-place payload (head table / file header),
                                                                      * 4 the properly closed file cut short to `partial` bytes (all in-place updates applied, the tail missing) */

typedef struct {
    prog_t p; model_t m;
    size_t nmut;                 /* number of mutation events (writes / truncations) */
    size_t *op_end;              /* mutation count after op i */
    size_t k_def;                /* mutation count after the last definition op */
    /* per signal: mutation index at which each DATA chunk header was appended */
    size_t *data_start[256]; size_t ndata[256];
    uint32_t spd[256];
    int levels;
    int omission;                /* some level-0 block of the final file is omitted (index entry 0) */
    uint8_t sig_omission[256];   /* ... per signal */
    image_t *img; size_t nimg;
    size_t *cuts; size_t ncuts;  /* sizes to which the closed file is truncated */
    char feat[200];
} plan_t;

/* ------------------------------ program generator ----------------------------------- */
typedef struct { op_t *ops; size_t n, cap; } oplist_t;
static op_t *ol_add(oplist_t *l, int kind) {
    if (l->n == l->cap) { l->cap = l->cap ? l->cap * 2 : 32; l->ops = realloc(l->ops, l->cap * sizeof(op_t)); }
    op_t *o = &l->ops[l->n++];
    memset(o, 0, sizeof(*o));
    o->kind = (uint8_t) kind;
    return o;
}

static uint64_t g_prog_index;
static void build_program(prog_t *p, rng_t *r, char *feat, size_t featn) {
    prog_add_source(p, 1, "crash-src");
    int nsig = (int) rng_range(r, 1, 3);
    int no_fsr = (g_prog_index % 6) == 2;    /* a file without any FSR signal: only signal 0 / VSR annotations and user data */
    if (no_fsr) nsig = 0;
    oplist_t lists[7]; memset(lists, 0, sizeof(lists));
    size_t nl = 0, fn = 0;
    feat[0] = 0;
    int late_def = rng_chance(r, 1, 3);
    for (int i = 0; i < nsig; ++i) {
        const dtype_t *t = &DTYPES[rng_below(r, 15)];
        int dcls = rng_chance(r, 2, 3) ? DEF_TINYLEVELS : DEF_MINIMAL;
        struct jls_signal_def_s d, nm;
        uint16_t sid = (uint16_t) (i * 5 + 2);
        gen_def(r, &d, sid, 1, t, dcls);
        static const uint32_t dec[] = {2, 3, 4, 100};
        d.annotation_decimate_factor = RNG_PICK(r, dec); d.utc_decimate_factor = RNG_PICK(r, dec);
        int fcls; int64_t first = gen_first_id(r, &fcls);
        d.sample_id_offset = first;
        def_normalised(&d, &nm);
        int pat = t->bits <= 8 && rng_chance(r, 1, 4) ? PAT_BLOCKCONST : PAT_WALK;
        size_t before = p->n;
        int si = prog_add_signal(p, &d, "crash", "u", pat, rng_u64(r));
        p->sig[p->ops[si].def].blk = nm.samples_per_data;
        if (late_def && i > 0) { *ol_add(&lists[nl], OP_SIGNAL) = p->ops[before]; p->n = before; }
        /* stream: 1..4 summary levels within a small file */
        int target = (int) rng_range(r, 1, 4);
        int64_t n = def_level_span(&nm, 1);
        for (int k = 2; k < target; ++k) n *= nm.summary_decimate_factor;
        n = n + rng_range(r, 0, n);
        int64_t maxbytes = 24000;
        if (n * t->bits / 8 > maxbytes) n = maxbytes * 8 / t->bits;
        if (rng_chance(r, 1, 6)) n = rng_range(r, 1, nm.samples_per_data * 2);
        span_t *sp; size_t k = gen_partition(r, rng_chance(r, 1, 2) ? PART_RANDOM : PART_BLOCKISH, first, n, nm.samples_per_data, &sp);
        int omit = rng_chance(r, 1, 5);
        for (size_t q = 0; q < k; ++q) {
            if (omit && rng_chance(r, 1, 6)) { op_t *o = ol_add(&lists[nl], OP_OMIT); o->id = sid; o->enable = (uint32_t) rng_below(r, 2); }
            op_t *o = ol_add(&lists[nl], OP_FSR); o->id = sid; o->sid = sp[q].sid; o->n = sp[q].n; o->vseed = rng_u64(r);
            if (rng_chance(r, 1, 5)) { op_t *a = ol_add(&lists[nl], OP_ANNO); a->id = sid; a->ts = sp[q].sid; a->y = 2.0f; a->atype = (uint8_t) rng_below(r, 4); a->stype = (uint8_t) rng_range(r, 1, 3); a->dsize = (uint32_t) rng_range(r, 1, 24); a->dseed = rng_u64(r); }
            if (rng_chance(r, 1, 5)) { op_t *u = ol_add(&lists[nl], OP_UTC); u->id = sid; u->sid = sp[q].sid; u->utc = JLS_TIME_SECOND * 5000 + (sp[q].sid - first) * (JLS_TIME_SECOND / 1000); }
        }
        free(sp);
        fn += (size_t) snprintf(feat + fn, featn - fn, "%s%s/%s/omit=%d", i ? "+" : "", t->name, DEF_CLASS_NAME[dcls], omit);
        ++nl;
    }
    /* a variable-sample-rate signal that only carries annotations, with an id above or below the FSR signals */
    int vsr = rng_chance(r, 1, 2);
    if (vsr) {
        struct jls_signal_def_s d;
        uint16_t sid = rng_chance(r, 2, 3) ? 20 : 1;
        gen_def(r, &d, sid, 1, dtype_by_name("f32"), DEF_MINIMAL);
        d.signal_type = JLS_SIGNAL_TYPE_VSR; d.sample_rate = 0; d.annotation_decimate_factor = 3;
        size_t before = p->n;
        prog_add_signal(p, &d, "vsr", "", PAT_WALK, 1);
        if (late_def) { *ol_add(&lists[nl], OP_SIGNAL) = p->ops[before]; p->n = before; }
        int nva = (int) rng_range(r, 1, 14); int64_t vts = rng_range(r, -50, 50);
        for (int i = 0; i < nva; ++i) { op_t *a = ol_add(&lists[nl], OP_ANNO); a->id = sid; vts += (int64_t) rng_below(r, 4); a->ts = vts; a->y = (float) i; a->atype = (uint8_t) rng_below(r, 4); a->stype = (uint8_t) rng_range(r, 1, 3); a->dsize = (uint32_t) rng_range(r, 1, 30); a->dseed = rng_u64(r); }
        fn += (size_t) snprintf(feat + fn, featn - fn, "+vsr%u", sid);
        ++nl;
    }
    int nanno = (int) rng_range(r, 0, 12); int64_t ts = 0;
    if (no_fsr) nanno = (int) rng_range(r, 101, 260);   /* more than signal 0's decimation of 100: index chunks exist */
    for (int i = 0; i < nanno; ++i) { op_t *a = ol_add(&lists[nl], OP_ANNO); a->id = 0; ts += (int64_t) rng_below(r, 3); a->ts = ts; a->y = NAN; a->atype = 1; a->stype = JLS_STORAGE_TYPE_STRING; a->dsize = (uint32_t) rng_range(r, 1, 20); a->dseed = rng_u64(r); }
    ++nl;
    int nuser = (int) rng_range(r, 0, 4);
    int big_user = (g_prog_index & 1) || rng_chance(r, 1, 4);   /* chunks whose end lies within the last bytes of a 4096-byte scan block of the copy's resynchronisation */
    if (big_user) nuser = 5;
    for (int i = 0; i < nuser; ++i) { op_t *u = ol_add(&lists[nl], OP_USER); u->meta = (uint16_t) rng_below(r, 4096); u->stype = (uint8_t) rng_range(r, 1, 3); u->dsize = (uint32_t) rng_range(r, 1, 200); u->dseed = rng_u64(r);
        /* binary payloads whose on-disk size is 4048, 4056, 4064 (mod 4096) and their neighbours: every position of the next
         * chunk header relative to the end of a 4096-byte scan block occurs in each such program */
        if (big_user) { static const uint32_t sz[] = {4040, 4048, 4056, 4032, 4064, 8136, 8144}; u->stype = JLS_STORAGE_TYPE_BINARY; u->dsize = sz[(i + (int) (g_prog_index / 2)) % 7] + (uint32_t) rng_below(r, 4);
            /* one of them holds complete chunk images (a JLS file kept as user data): found by whoever scans for chunk headers */
            if (i == 2 || i == 4) u->dseed = (u->dseed & ~0xFFFULL) | PAYLOAD_EMBEDS_CHUNKS; } }
    ++nl;
    snprintf(feat + fn, featn - fn, "|late-def=%d|anno=%d|user=%d", late_def, nanno > 0, nuser > 0);
    op_t *ls[7]; size_t cn[7];
    for (size_t i = 0; i < nl; ++i) { ls[i] = lists[i].ops; cn[i] = lists[i].n; }
    prog_interleave(p, r, ls, cn, nl);
    for (size_t i = 0; i < nl; ++i) free(lists[i].ops);
}

/* run the program, recording the write log and the per-op mutation counts */
static int run_and_plan(plan_t *pl, rng_t *r, const char *path, const ctx_t *c) {
    memset(pl, 0, sizeof(*pl));
    prog_init(&pl->p);
    build_program(&pl->p, r, pl->feat, sizeof(pl->feat));
    model_init(&pl->m, &pl->p);
    iolog_start(path, 1, 1);
    struct jls_wr_s *wr = NULL;
    if (jls_wr_open(&wr, path)) return -1;
    pl->op_end = calloc(pl->p.n + 1, sizeof(size_t));
    for (size_t i = 0; i < pl->p.n; ++i) {
        exec_op_sync(wr, &pl->p, &pl->p.ops[i]);
        model_apply(&pl->m, i);
        pl->op_end[i] = iolog_mutations();
        if ((pl->p.ops[i].kind == OP_SOURCE || pl->p.ops[i].kind == OP_SIGNAL) && pl->p.ops[i].rc == 0) pl->k_def = pl->op_end[i];
    }
    jls_wr_close(wr);
    iolog_stop();
    pl->nmut = iolog_mutations();
    /* decode the final file: where did each DATA chunk start, and in which write? */
    jd_t d;
    if (!jd_load(&d, path)) {
        jd_decode(&d);
        /* map offset -> first mutation index that appended there */
        for (int s = 1; s < 256; ++s) {
            if (!d.sig[s].present) continue;
            pl->spd[s] = d.sig[s].spd;
            for (int l = 1; l < JD_LEVELS; ++l) if (d.sig[s].summary[JD_TT_FSR][l].n && l > pl->levels) pl->levels = l;
            {
                const jd_list_t *il = &d.sig[s].index[JD_TT_FSR][1];
                for (size_t q = 0; q < il->n; ++q) {
                    const jd_chunk_t *icn = &d.ch[il->idx[q]];
                    if (icn->plen < 16) continue;
                    uint32_t cnt; memcpy(&cnt, icn->payload + 8, 4);
                    for (uint32_t e = 0; e < cnt && 16 + 8 * (uint64_t) (e + 1) <= icn->plen; ++e) { uint64_t off; memcpy(&off, icn->payload + 16 + 8 * e, 8); if (!off) { pl->omission = 1; pl->sig_omission[s & 255] = 1; } }
                }
            }
            const jd_list_t *dl = &d.sig[s].data[JD_TT_FSR];
            pl->data_start[s] = calloc(dl->n + 1, sizeof(size_t));
            for (size_t q = 0; q < dl->n; ++q) {
                uint64_t off = d.ch[dl->idx[q]].off;
                size_t mi = 0; int found = 0;
                for (size_t e = 0; e < g_io.n; ++e) {
                    if (g_io.ev[e].op != IO_WRITE && g_io.ev[e].op != IO_TRUNC) continue;
                    if (g_io.ev[e].op == IO_WRITE && (uint64_t) g_io.ev[e].off == off) { found = 1; break; }
                    ++mi;
                }
                if (found) pl->data_start[s][pl->ndata[s]++] = mi;
            }
        }
        /* truncations of the closed file: at chunk boundaries, inside headers, inside payloads, just before a payload CRC */
        {
            size_t cap2 = 6 * d.n + 8; pl->cuts = calloc(cap2, sizeof(size_t));
            for (size_t i = 0; i < d.n; ++i) {
                uint64_t off = d.ch[i].off, plen = d.ch[i].plen;
                uint64_t full = plen ? 32 + (((plen + 4) + 7) & ~7ULL) : 32;
                uint64_t cand[6] = {off, off + 8, off + 31, off + 32 + plen / 2, off + full - 4, off + full - 1};
                for (int q = 0; q < 6; ++q) if (cand[q] > 32 && cand[q] < d.size) pl->cuts[pl->ncuts++] = (size_t) cand[q];
            }
        }
        jd_free(&d);
    }
    /* enumerate images */
    size_t cap = 0;
    int64_t fsize = 0;
    uint8_t wcls = 0;
    int embeds = 0;
    for (size_t k = 0; k <= pl->nmut; ++k) {
#define ADD(kk, pp) do { if (pl->nimg == cap) { cap = cap ? cap * 2 : 1024; pl->img = realloc(pl->img, cap * sizeof(image_t)); } pl->img[pl->nimg].k = (kk); pl->img[pl->nimg].partial = (pp); pl->img[pl->nimg].cls = (pp) ? wcls : 0; pl->img[pl->nimg].embeds = (uint8_t) ((pp) ? embeds : 0); pl->nimg++; } while (0)
        ADD(k, 0);
        if (k == pl->nmut) break;
        size_t ei = iolog_mutation_index(k);
        if (g_io.ev[ei].op != IO_WRITE) { if ((int64_t) g_io.ev[ei].off < fsize) fsize = g_io.ev[ei].off; continue; }
        uint32_t len = g_io.ev[ei].len;
        wcls = g_io.ev[ei].off >= fsize ? 1 : (len == 32 && g_io.ev[ei].off >= 32 ? 2 : 3);
        if (g_io.ev[ei].off + (int64_t) len > fsize) fsize = g_io.ev[ei].off + (int64_t) len;
        /* torn header updates of large chunks (a resynchronising reader has to skip >= 4 KB) are always enumerated */
        int big_patch = 0;
        if (wcls == 2 && (size_t) g_io.ev[ei].off + 32 <= g_io.sh_n) { uint32_t pl32; memcpy(&pl32, g_io.sh + g_io.ev[ei].off + 20, 4); big_patch = pl32 >= 4000; }
        /* an appended payload that begins with a complete chunk image (PAYLOAD_EMBEDS_CHUNKS): cuts behind the embedded images are
         * always enumerated, and always copied */
        embeds = 0;
        if (wcls == 1 && len >= 600 && g_io.keep_data && g_io.ev[ei].data_pos + len <= g_io.data_n) {
            const uint8_t *wd = g_io.data + g_io.ev[ei].data_pos; uint32_t c32; memcpy(&c32, wd + 28, 4);
            embeds = jd_crc32c(wd, 28) == c32;
        }
        if (c->partial_every > 1 && (k % (size_t) c->partial_every) != 0 && !big_patch && !embeds) continue;
        if (len <= 40) { for (uint32_t q = 1; q < len; ++q) ADD(k, q); }
        else { uint32_t qs[6] = {1, 7, 8, len / 2, len - 5, len - 1}; for (int q = 0; q < 6; ++q) ADD(k, qs[q]); if (embeds) { ADD(k, 70); ADD(k, 200); ADD(k, 300); } }
    }
    /* the closed file cut short: every candidate in the thorough tier, an evenly spaced selection of 48 otherwise */
    {
        size_t step = (c->thorough || pl->ncuts <= 48) ? 1 : pl->ncuts / 48;
        for (size_t q = (size_t) (g_prog_index % (step ? step : 1)); q < pl->ncuts; q += step) {
            if (pl->nimg == cap) { cap = cap ? cap * 2 : 1024; pl->img = realloc(pl->img, cap * sizeof(image_t)); }
            pl->img[pl->nimg].k = pl->nmut; pl->img[pl->nimg].partial = pl->cuts[q]; pl->img[pl->nimg].cls = 4; pl->nimg++;
        }
    }
    return 0;
}

static void plan_free(plan_t *pl) {
    free(pl->cuts);
    for (int s = 0; s < 256; ++s) free(pl->data_start[s]);
    free(pl->op_end); free(pl->img);
    model_free(&pl->m); prog_free(&pl->p);
}

static uint64_t file_hash(const char *path, size_t *size) {
    jd_t d;
    if (jd_load(&d, path)) return 0;
    uint64_t h = fnv1a(d.buf, d.size, FNV_INIT);
    if (size) *size = d.size;
    jd_free(&d);
    return h;
}

static int write_file(const char *path, const uint8_t *p, size_t n) {
    int fd = open(path, O_WRONLY | O_CREAT | O_TRUNC, 0600);
    if (fd < 0) return -1;
    size_t done = 0;
    while (done < n) { ssize_t w = write(fd, p + done, n - done); if (w <= 0) break; done += (size_t) w; }
    close(fd);
    return done == n ? 0 : -1;
}

typedef struct { plan_t *pl; const ctx_t *c; uint64_t prog; const char *path; } imgctx_t;

static int g_omission;
/* Classification used in violation keys.  Programs whose final file has omitted level-0 blocks form one
 * class of their own: blocks omitted before their level-1 index was flushed leave no trace on disk. */
static const char *cut_class(const image_t *im) {
    static const char *n[] = {"between-writes", "torn-append", "torn-header-update", "torn-inplace-payload"};
    static const char *no[] = {"omitted-blocks/between-writes", "omitted-blocks/torn-append", "omitted-blocks/torn-header-update", "omitted-blocks/torn-inplace-payload"};
    if (im->cls == 4) return g_omission ? "omitted-blocks/truncated-closed" : "truncated-closed";
    if (g_omission) return no[im->cls & 3];
    return n[im->cls & 3];
}

/* one crash image, in its own process */
static void image_case(uint64_t ii, void *vctx) {
    imgctx_t *ic = vctx;
    plan_t *pl = ic->pl;
    const image_t *im = &pl->img[ii];
    rng_t r; rng_seed(&r, vmix(g_seed, ic->prog * 1000000ULL + ii));
    static char chk[64];
    snprintf(chk, sizeof(chk), "crash:image=%llu", (unsigned long long) ii);
    g_check = chk;
    int cutc = im->cls == 4;
    uint8_t *img; size_t n = iolog_image(im->k, cutc ? 0 : im->partial, &img);
    if (cutc && im->partial < n) n = im->partial;
    const char *path = v_path("image.jls");
    if (write_file(path, img, n)) { free(img); return; }
    uint64_t h_image = fnv1a(img, n, FNV_INIT);
    free(img);
    char key[200], wj[300];
    snprintf(wj, sizeof(wj), "{\"program\":%llu,\"image\":%llu,\"writes_applied\":%zu,\"partial_bytes\":%zu,\"of_writes\":%zu,\"k_def\":%zu,\"image_size\":%zu,\"levels_in_final_file\":%d}",
             (unsigned long long) ic->prog, (unsigned long long) ii, im->k, im->partial, pl->nmut, pl->k_def, n, pl->levels);
    v_ctx("prog %llu image %llu k=%zu partial=%zu size=%zu", (unsigned long long) ic->prog, (unsigned long long) ii, im->k, im->partial, n);
    jls_quiet();
    /* first open: may repair in place */
    struct jls_rd_s *rd = NULL;
    v_api("jls_rd_open");
    int32_t rc = jls_rd_open(&rd, path);
    v_api("");
    int clause2 = !cutc && (im->partial == 0) && (im->k >= pl->k_def) && pl->k_def > 0;
    v_count("C03", "images", 1);
    v_count("C03", cutc ? "images_closed_file_cut_short" : im->partial ? "images_mid_write" : "images_between_writes", 1);
    if (pl->levels >= 2) v_count("C03", "images_from_programs_with_2plus_levels", 1);
    if (rc) {
        v_count("C03", "open_returned_error", 1);
        v_feature("C03", 1, "%s|levels=%d|open-error=%d|stage=%s", cut_class(im), pl->levels, rc, im->k < pl->k_def ? "definitions" : "later");
        if (clause2) {
            snprintf(key, sizeof(key), "clause2|open-error|rc=%d|levels=%s", rc, pl->levels >= 2 ? ">=2" : "<2");
            v_violation("C03", key, wj, "stop between two complete writes with all definitions on disk, but jls_rd_open returned %d", rc);
        }
        /* an open that reports an error may leave the file alone; one that modified it has repaired it, whatever it returned:
         * the file it leaves behind is then a well-formed closed file (C19, C05) */
        {
            jd_t d;
            if (!jd_load(&d, path)) {
                int modified = d.size != n || fnv1a(d.buf, d.size, FNV_INIT) != h_image;
                v_count("C19", modified ? "failed_opens_that_modified_the_file" : "failed_opens_that_left_the_file_alone", 1);
                if (modified) {
                    jd_decode(&d);
                    for (int i = 0; i < d.nerr; ++i) {
                        int dup = 0;
                        for (int j = 0; j < i; ++j) if (!strcmp(d.err[j].rule, d.err[i].rule)) dup = 1;
                        if (dup) continue;
                        snprintf(key, sizeof(key), "open-error-after-repair|malformed|%s", cut_class(im));
                        v_violation("C05", key, wj, "jls_rd_open returned %d after modifying the file, which is not well formed: %s", rc, d.err[i].msg);
                        v_violation("C19", key, wj, "jls_rd_open returned %d after modifying the file, which is not well formed: %s", rc, d.err[i].msg);
                    }
                }
                jd_free(&d);
            }
        }
        unlink(path);
        return;
    }
    v_count("C03", "open_succeeded", 1);
    if (clause2) v_count("C03", "clause2_images", 1);
    v_feature("C03", 1, "%s|levels=%d|opened|clause2=%d|stage=%s", cut_class(im), pl->levels, clause2, im->k < pl->k_def ? "definitions" : im->k * 10 >= pl->nmut * 9 ? "closing" : "streaming");
    dump_t d1, d2, d3;
    uint64_t ds = vmix(g_seed, 77);
    dump_reader(rd, &d1, ds);
    int64_t lengths[256];
    for (int i = 0; i < 256; ++i) lengths[i] = -2;
    /* a closed file cut short is not a prefix of the writer's writes (its in-place updates are all there): C03 says nothing about what it
     * still holds; C19 and C05 do about the state the repairing open leaves behind */
    if (!cutc) verify_prefix(rd, &pl->m, "C03", &r, path, lengths, cut_class(im));
    v_api("jls_rd_close");
    jls_rd_close(rd);
    v_api("");
    if (clause2) {
        for (int s = 1; s < 256; ++s) {
            if (!pl->m.sig[s].defined || !pl->m.sig[s].fsr) continue;
            size_t started = 0;
            for (size_t q = 0; q < pl->ndata[s]; ++q) if (pl->data_start[s][q] < im->k) ++started;
            int64_t need = started > 1 ? (int64_t) (started - 1) * pl->spd[s] : 0;
            /* the signal definition itself must be on disk: it is, k >= k_def */
            if (lengths[s] == -2) {
                snprintf(key, sizeof(key), "clause2|signal-missing|levels=%s", pl->levels >= 2 ? ">=2" : "<2");
                v_violation("C03", key, wj, "signal %d was defined on disk before the stop but is not returned after reopen", s);
            } else if (lengths[s] < need) {
                snprintf(key, sizeof(key), "clause2|lost-more-than-allowed|levels=%s|%s", pl->levels >= 2 ? ">=2" : "<2", lengths[s] < 0 ? "length-error" : "short");
                /* a signal with omitted blocks: blocks omitted after the last flushed level-1 index leave no trace on disk,
                 * the recovered signal has to end before them (known finding) */
                if (pl->sig_omission[s] && lengths[s] >= 0) snprintf(key, sizeof(key), "clause2|lost-more-than-allowed|omitted-blocks");
                v_violation("C03", key, wj, "signal %d: %zu data blocks had been started, reopen yields %lld samples (at least %lld expected: all but the block in flight)", s, started,
                            (long long) lengths[s], (long long) need);
            }
        }
    }
    /* C19 (b): the repaired file is a well-formed closed file; reopening changes and reports nothing new */
    size_t sz1 = 0; uint64_t h1 = file_hash(path, &sz1);
    iolog_t saved = g_io;            /* keep the write log of the program */
    memset(&g_io, 0, sizeof(g_io)); g_io.fd = -1;
    iolog_start(path, 0, 0);
    dump_file(path, &d2, ds);
    uint64_t w2 = g_io.n_write + g_io.n_trunc, ow2 = g_io.n_open_wr;
    dump_file(path, &d3, ds);
    uint64_t w3 = g_io.n_write + g_io.n_trunc;
    iolog_stop();
    iolog_reset();
    g_io = saved;
    size_t sz2 = 0; uint64_t h2 = file_hash(path, &sz2);
    v_count("C19", "reopened_images", 1);
    v_feature("C19", 1, "reopen|%s|levels=%d|%s", cut_class(im), pl->levels, sz1 != n ? "repaired" : "intact");
    if (w2 || w3) { snprintf(key, sizeof(key), "reopen|wrote|%s", w2 ? "second-open" : "third-open"); v_violation("C19", key, wj, "reopening a repaired file caused %llu writes/truncations", (unsigned long long) (w2 + w3)); }
    if (ow2) v_violation("C19", "reopen|opened-writable", wj, "a repaired file was opened with write access again");
    if (h1 != h2 || sz1 != sz2) v_violation("C19", "reopen|bytes-changed", wj, "file bytes changed on reopen (%zu -> %zu)", sz1, sz2);
    dump_compare(&d1, &d2, "C19", "reopen|first-vs-second", "repairing open vs second open");
    dump_compare(&d2, &d3, "C19", "reopen|second-vs-third", "second vs third open");
    /* C05: a file repaired on open conforms.  (An image that the reader accepted without modifying it --
     * e.g. the END chunk is there but the final file-header write is missing -- was not repaired: the
     * clause does not apply; counted.) */
    int was_repaired = (h1 != h_image) || (sz1 != n);
    if (!was_repaired) v_count("C19", "opened_without_repair", 1);
    if (was_repaired) {
        jd_t d;
        if (!jd_load(&d, path)) {
            jd_decode(&d);
            v_count("C05", "repaired_files_decoded", 1);
            v_feature("C05", d.n > 8, "repaired|%s|levels=%d|orphans=%d", cut_class(im), pl->levels, d.orphans > 0);
            for (int i = 0; i < d.nerr; ++i) {
                int dup = 0;
                for (int j = 0; j < i; ++j) if (!strcmp(d.err[j].rule, d.err[i].rule)) dup = 1;
                if (dup) continue;
                if (cutc) snprintf(key, sizeof(key), "rule|%s|repaired|truncated-closed", d.err[i].rule);
                else if (g_omission || im->cls == 2) snprintf(key, sizeof(key), "repaired-malformed|%s", cut_class(im));
                else snprintf(key, sizeof(key), "rule|%s|repaired|%s", d.err[i].rule, cut_class(im));
                v_violation("C05", key, wj, "%s", d.err[i].msg);
                v_violation("C19", key, wj, "repaired file is not well formed: %s", d.err[i].msg);
            }
            jd_free(&d);
        }
    }
    /* C17: unclosed original -> copy */
    /* cut points between two writes every copy_every-th image; writes torn in the middle (torn appends, torn in-place header
     * updates: the copy then has to resynchronise behind an unreadable chunk) every 4*copy_every-th, torn header updates always */
    int torn_hdr = im->partial && im->cls == 2;
    if (!cutc && ic->c->copy_every && im->k >= pl->k_def && (torn_hdr || im->embeds || (ii % (uint64_t) (im->partial ? 4 * ic->c->copy_every : ic->c->copy_every)) == 0)) {
        const char *src = v_path("unclosed.jls"), *dst = v_path("unclosed-copy.jls");
        img = NULL; n = iolog_image(im->k, im->partial, &img);
        write_file(src, img, n); free(img);
        v_api("jls_copy");
        rc = jls_copy(src, dst, NULL, NULL, NULL, NULL);
        v_api("");
        v_count("C17", "unclosed_copies", 1);
        v_feature("C17", 1, "unclosed|%s|levels=%d|%s", im->partial ? (torn_hdr ? "torn-header-update" : "torn-write") : "between-writes", pl->levels, pl->feat);
        v_count("C17", im->partial ? (torn_hdr ? "unclosed_copies_torn_header_update" : "unclosed_copies_torn_write") : "unclosed_copies_between_writes", 1);
        if (rc) { snprintf(key, sizeof(key), "copy-error|rc=%d|unclosed", rc); v_violation("C17", key, wj, "jls_copy of an unclosed but readable file returned %d", rc); }
        else {
            dump_t dc, dorig;
            dump_keep_sequences(1);
            dump_file(dst, &dc, ds);
            dump_file(path, &dorig, ds);       /* the reopened (repaired) original */
            dump_keep_sequences(0);
            uint8_t skip[256]; memset(skip, 0, sizeof(skip));
            for (int s = 1; s < 256; ++s) if (pl->m.sig[s].defined && (pl->m.sig[s].omit_ever || (pl->m.sig[s].dt && pl->m.sig[s].dt->bits <= 8))) skip[s] = 1;  /* omitted blocks: known finding of closed copies */
            dump_compare_prefix(&dorig, &dc, path, dst, "C17", torn_hdr ? "unclosed-torn-header-update" : "unclosed", skip);
            dump_free(&dc); dump_free(&dorig);
            jd_t d;
            if (!jd_load(&d, dst)) { jd_decode(&d); for (int i = 0; i < d.nerr && i < 3; ++i) { snprintf(key, sizeof(key), "rule|%s|copy-of-unclosed", d.err[i].rule); v_violation("C17", key, wj, "%s", d.err[i].msg); } jd_free(&d); }
        }
        unlink(src); unlink(dst);
    }
    unlink(path);
}

static void run_case(uint64_t idx, void *vctx) {
    ctx_t *c = vctx;
    uint64_t prog = idx / NSHARD, shard = idx % NSHARD;
    rng_t r; rng_seed(&r, vmix(g_seed, prog ^ 0xC03C03));
    jls_quiet();
    plan_t pl;
    const char *path = v_path("crash-prog.jls");
    g_prog_index = prog;
    if (run_and_plan(&pl, &r, path, c)) return;
    unlink(path);
    if (shard == 0) {
        v_feature("C03", 1, "%s|levels=%d|omitted-blocks=%d", pl.feat, pl.levels, pl.omission);
        v_count("C03", "programs", 1);
        v_count("C03", "writes_logged", (int64_t) pl.nmut);
        v_count("C03", "crash_images_enumerated", (int64_t) pl.nimg);
        jb_t j; jb_init(&j); prog_describe(&pl.p, &j, 10);
        if (prog < 3) v_sample("C03", j.b);
        if (prog < 3) v_sample("C19", j.b);
        jb_free(&j);
    }
    /* images of this shard, each in its own child */
    imgctx_t ic = {.pl = &pl, .c = c, .prog = prog, .path = path};
    g_omission = pl.omission;
    if (getenv("VERIF_IMAGE")) {   /* debugging aid: materialise one image and its repaired form */
        uint64_t ii = strtoull(getenv("VERIF_IMAGE"), NULL, 0);
        if (ii < pl.nimg) {
            uint8_t *img; size_t n = iolog_image(pl.img[ii].k, pl.img[ii].cls == 4 ? 0 : pl.img[ii].partial, &img);
            if (pl.img[ii].cls == 4 && pl.img[ii].partial < n) n = pl.img[ii].partial;
            write_file(v_path("dbg-image.jls"), img, n); write_file(v_path("dbg-repaired.jls"), img, n); free(img);
            struct jls_rd_s *rd = NULL; int32_t rc = jls_rd_open(&rd, v_path("dbg-repaired.jls"));
            fprintf(stderr, "image %llu k=%zu partial=%zu cls=%d size=%zu open rc=%d\n", (unsigned long long) ii, pl.img[ii].k, pl.img[ii].partial, pl.img[ii].cls, n, rc);
            if (!rc) jls_rd_close(rd);
        }
        plan_free(&pl);
        return;
    }
    run_opts_t ro = {.cpu_s = 10, .wall_s = 60, .no_fork = 0};
    uint64_t count = (pl.nimg + NSHARD - 1 - shard) / NSHARD;
    v_count_flush();
    g_outer_case = idx; g_nested = 1;
    v_run_cases(image_case, &ic, shard, count, NSHARD, &ro);
    g_nested = 0;
    g_case = idx;
    plan_free(&pl);
}

int main(int argc, char **argv) {
    v_init(argc, argv);
    ctx_t c = {.thorough = (int) v_arg_i(argc, argv, "--thorough", 0)};
    c.partial_every = (int) v_arg_i(argc, argv, "--partial-every", c.thorough ? 1 : 4);
    c.copy_every = (int) v_arg_i(argc, argv, "--copy-every", 25);
    g_check = "crash";
    run_opts_t ro = {.cpu_s = 600, .wall_s = 1800, .no_fork = v_has_arg(argc, argv, "--no-fork")};
    uint64_t first = (uint64_t) v_arg_i(argc, argv, "--first", 0), count = (uint64_t) v_arg_i(argc, argv, "--count", NSHARD), stride = (uint64_t) v_arg_i(argc, argv, "--stride", 1);
    return v_run_cases(run_case, &c, first, count, stride, &ro) ? 2 : 0;
}
